"""C16 -- descriptors map to the standard output scripts, addresses and derived keys.

Structural clauses (DESIGN.md C16): the per-type output table is the standard one and its siblings agree;
sorted-multisig sites sort before interpreting keys; Descriptor dispatch is uniform."""

import os
import sys

from .. import symx, model, scriptmodel, satmodel
from ..interp import Term
from ..report import Unsupported
from . import assembly

LEVEL = "other"
DESC = "descriptor::Descriptor"
SHI = "descriptor::sh::ShInner"


def check_sorted_pairing(chk, F):
    rid = "R16.2"
    chk.rule(rid, "sorted multisig: every site that interprets the keys of SortedMulti / SortedMultiA for script "
                  "meaning (encode, sat_dissat) sorts them first with the matching BIP67 routine (full keys for "
                  "CHECKMULTISIG, x-only keys for CHECKSIGADD); plain multi keeps the listed order")
    try:
        P = scriptmodel.paths(F)
        SP = satmodel.paths(F)
    except KeyError as e:
        chk.fail(rid, "anchors", "missing %s" % e, kind="unanalysable")
        return
    want = {"Multi": "plain", "SortedMulti": "sorted67", "MultiA": "plain", "SortedMultiA": "sorted67x"}
    for v, kind in want.items():
        try:
            res, m = scriptmodel.run_encode(F, v, n=3, P=P)
            toks = [scriptmodel.nf_tokens(r) for c, r in res if not (isinstance(r, tuple) and r and r[0] == "panic")]
            keys = [t[2] for t in toks[0] if t[0] == "key"]
            chk.obligation(rid, [k[0] for k in keys] == [kind] * 3 and [k[1] for k in keys] == [0, 1, 2],
                           "encode|" + v, "encode(%s) pushes keys %r; expected the 3 keys in %s order" % (v, keys, kind),
                           F.fns[P["encode"]]["span"])
            ser = set(t[1] for t in toks[0] if t[0] == "key")
            chk.obligation(rid, ser == ({"key_full"} if v in ("Multi", "SortedMulti") else {"key_ctx"}), "encode|%s|ser" % v,
                           "encode(%s) serialises keys as %s" % (v, sorted(ser)), F.fns[P["encode"]]["span"])
        except (Unsupported, IndexError) as e:
            chk.fail(rid, "encode|%s|unanalysable" % v, "unanalysable: %s" % e, kind="unanalysable")
        try:
            res, m = satmodel.run_variant(F, v, False, n=3, k=3, P=SP)
            good = False
            for conds, r in res:
                if isinstance(r, tuple):
                    continue
                s = satmodel.nf_sat(r.fields["sat"])
                names = [a[1] for a in s if isinstance(a, tuple) and a[0] == "sig"]
                pref = {"plain": "K", "sorted67": "sorted67:K", "sorted67x": "sorted67x:K"}[kind]
                good = len(names) == 3 and all(nm.startswith(pref) for nm in names)
                chk.obligation(rid, good, "sat_dissat|" + v,
                               "sat_dissat(%s) asks signatures for keys %r; expected %s keys" % (v, names, kind),
                               F.fns[SP["sat_dissat"]]["span"])
        except Unsupported as e:
            chk.fail(rid, "sat_dissat|%s|unanalysable" % v, "unanalysable: %s" % e, kind="unanalysable")
    # push_ms_key: full key for ECDSA contexts, x-only serialisation for Schnorr
    for p in P["push_ms_key"]:
        body = F.thir(p)["body"]
        ms_ = symx.find_matches_on(body, "miniscript::context::SigType", min_arms=2)
        good = False
        if ms_:
            table = {}
            for a in ms_[0]["arms"]:
                vs = symx.pat_variants(a["pat"]) or set()
                calls = [c["callee"].get("name") for c in symx.find_nodes(a["body"], lambda n: n.get("k") == "call" and "callee" in n)]
                for v in vs:
                    table[v] = calls
            good = "push_key" in table.get("Ecdsa", []) and "to_x_only_pubkey" in table.get("Schnorr", []) \
                and "push_key" not in table.get("Schnorr", [])
        chk.obligation(rid, good, "push_ms_key", "push_ms_key must push the full key under Ecdsa and the x-only "
                       "serialisation under Schnorr", F.fns[p]["span"])


def check_dispatch(chk, F):
    rid = "R16.3"
    chk.rule(rid, "dispatch uniformity: in every method of Descriptor (and Sh over ShInner) that matches on the "
                  "variant, each arm calls the same-named method of the wrapped type (reasoned exceptions listed)")
    EXC = {
        # (method, variant): what the arm may call instead, reason
        ("explicit_script", "Bare"): ("script_pubkey", "the explicit script of bare/pkh/wpkh is the scriptPubKey"),
        ("explicit_script", "Pkh"): ("script_pubkey", "idem"),
        ("explicit_script", "Wpkh"): ("script_pubkey", "idem"),
        ("explicit_script", "Wsh"): ("inner_script", "witness script"),
        ("explicit_script", "Sh"): ("inner_script", "redeem / witness script"),
        ("script_code", "*"): ("ecdsa_sighash_script_code", "renamed accessor"),
        ("into_plan", "*"): ("plan_satisfaction", "plan variant of the satisfier"),
        ("into_plan_mall", "*"): ("plan_satisfaction_mall", "plan variant of the satisfier"),
    }
    n = 0
    for p, f in sorted(F.fns.items()):
        if f.get("kind") == "Closure" or not f["span"].startswith("src/descriptor/mod.rs"):
            continue
        cont = f.get("container") or ""
        if DESC + "<" not in cont and not cont.startswith(DESC):
            continue
        if "::tests::" in p:
            continue
        name = f.get("name")
        body = F.thir(p)["body"]
        ms_ = symx.find_matches_on(body, DESC, min_arms=5)
        if not ms_ or f.get("derived") or name in ("desc_type", "fmt", "from_tree", "sanity_check", "iter_pk", "clone",
                                                     "eq", "cmp", "partial_cmp", "hash"):
            continue
        n += 1
        chk.saw(p)
        for a in ms_[0]["arms"]:
            vs = symx.pat_variants(a["pat"], DESC) or set()
            calls = [c["callee"].get("name") for c in symx.find_nodes(a["body"], lambda x: x.get("k") == "call" and "callee" in x)]
            calls = [c for c in calls if c not in ("branch", "from_residual", "into", "from", "map_err", "map", "new", "clone", "Ok", "Err")]
            for v in vs:
                exp = EXC.get((name, v), EXC.get((name, "*"), (name, "")))[0]
                if not calls:
                    # constant arms (e.g. `Err(BareDescriptorAddr)`, `ScriptBuf::new()`): allowed for these cells
                    const_ok = (name, v) in (("address", "Bare"), ("unsigned_script_sig", "Bare"), ("unsigned_script_sig", "Pkh"),
                                             ("unsigned_script_sig", "Wpkh"), ("unsigned_script_sig", "Wsh"),
                                             ("unsigned_script_sig", "Tr"), ("explicit_script", "Tr"), ("script_code", "Tr"))
                    chk.obligation(rid, const_ok, "%s|%s" % (name, v),
                                   "Descriptor::%s arm for %s calls nothing on the wrapped value" % (name, v), a.get("sp", ""))
                else:
                    chk.obligation(rid, exp in calls or name in calls, "%s|%s" % (name, v),
                                   "Descriptor::%s arm for %s calls %s; expected the wrapped type's `%s`" % (name, v, calls, exp),
                                   a.get("sp", ""))
    chk.floor(rid, "Descriptor dispatch methods", n, 12)


def check_derive_key(chk, F):
    rid = "R16.4"
    chk.rule(rid, "DefiniteDescriptorKey::derive_public_key: a single full key is returned unchanged, an x-only key "
                  "through to_public_key, an extended key is derived along its own path (table over the key variants)")
    try:
        p = [x for x in F.fn("derive_public_key", file="descriptor/key.rs", allow_many=True)
             if "DefiniteDescriptorKey" in x][0]
    except (KeyError, IndexError) as e:
        chk.fail(rid, "anchor", "missing %s" % e, kind="unanalysable")
        return
    chk.saw(p)
    from ..interp import Machine, Adt, explore
    DPK = "descriptor::key::DescriptorPublicKey"
    SPK = "descriptor::key::SinglePubKey"
    where = F.fns[p]["span"]

    def single(kind):
        return Adt("descriptor::key::DefiniteDescriptorKey", "DefiniteDescriptorKey", {"0": Adt(DPK, "Single", {"0": Adt(
            "descriptor::key::SinglePub", "SinglePub", {"origin": Term("origin"), "key": Adt(SPK, kind, {"0": Term("thekey")})})})})
    for kind, want in (("FullKey", "identity"),):
        m = Machine(F, strict=False)
        try:
            res = explore(m, lambda: m.call_path(p, [single(kind), Term("secp")]))
        except Unsupported as e:
            chk.fail(rid, kind + "|unanalysable", "unanalysable: %s" % e, where, kind="unanalysable")
            continue
        vals = [r for c, r in res if not (isinstance(r, tuple) and r and r[0] == "panic")]
        if want == "identity":
            good = vals == [Term("thekey")]
        else:
            good = len(vals) == 1 and isinstance(vals[0], Term) and "to_public_key" in repr(vals[0]) and "thekey" in repr(vals[0])
        chk.obligation(rid, good, kind, "derive_public_key of a single %s key returns %r (expected %s of the key)"
                       % (kind, vals, want), where)
    xp = Adt("descriptor::key::DefiniteDescriptorKey", "DefiniteDescriptorKey", {"0": Adt(DPK, "XPub", {"0": Adt(
        "descriptor::key::DescriptorXKey", "DescriptorXKey", {"origin": Term("origin"), "xkey": Term("xkey"),
                                                               "derivation_path": Term("path"),
                                                               "wildcard": Adt("descriptor::key::Wildcard", "None")})})})
    m = Machine(F, strict=False)
    try:
        res = explore(m, lambda: m.call_path(p, [xp, Term("secp")]))
        vals = [r for c, r in res if not (isinstance(r, tuple) and r and r[0] == "panic")]
        txt = " ".join(repr(v) for v in vals)
        chk.obligation(rid, len(vals) >= 1 and "derive_pub" in txt and "xkey" in txt and "path" in txt, "XPub",
                       "derive_public_key of an extended key returns %r (expected derive_pub(xkey, path).public_key)" % (vals,), where)
    except Unsupported as e:
        chk.fail(rid, "XPub|unanalysable", "unanalysable: %s" % e, where, kind="unanalysable")


def run(chk):
    F = chk.facts()
    chk.explanation = (
        "Decides that the per-type output table is the standard one and that its siblings agree: scriptPubKey, inner "
        "script, ECDSA script code and unsigned scriptSig of bare / pkh / wpkh / wsh / sh / sh-wsh / sh-wpkh are extracted "
        "symbolically (rust-bitcoin's script and address constructors as term constructors) and compared with the "
        "BIP16/141/143 table; address(net).script_pubkey = script_pubkey; sorted multisig sites sort (with the matching "
        "routine) before interpreting keys in both the encoder and the satisfier; Descriptor dispatch is uniform.")
    chk.trusted = ["spec/outputs.py", "rust-bitcoin's to_p2wsh / to_p2sh / Address::* (modelled as constructors)", "factgen THIR"]
    chk.assumptions = ["BIP32 derivation equality, wildcard / multipath expansion and taproot output keys are not decided"]
    assembly.check_outputs(chk, F, "R16.1")
    check_sorted_pairing(chk, F)
    check_dispatch(chk, F)
    check_derive_key(chk, F)
