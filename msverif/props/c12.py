"""C12 -- accepted scripts obey their context; validation switches mean what they say.

Structural clauses (DESIGN.md C12): parameter algebra (meet / order / constants), polarity and switch<->defect
pairing of every validation switch (decision trees extracted symbolically), per-context fragment/key tables,
mixed-time-lock step table, entry-point coverage (must-pass-through on success exits), constructor discipline."""

import itertools
import os
import sys

from .. import model, symx, dtree, constval, textmodel as tm
from ..interp import Machine, Adt, Term, PyVec, PyIter, Panic, explore, ok, err, some, NONE, RESULT
from ..report import Unsupported

sys.path.insert(0, os.path.join(os.path.dirname(__file__), "..", ".."))
from spec import limits as spec  # noqa: E402

LEVEL = "other"
VP = "validation::ValidationParams"
CTXS = ["Legacy", "BareCtx", "Segwitv0", "Tap"]


def params_value(F, name):
    c = F.consts.get(name)
    if c is None or not c.get("value"):
        raise KeyError("constant %s" % name)
    return constval.parse(c["value"])


def check_param_algebra(chk, F):
    rid = "R12.1"
    chk.rule(rid, "ValidationParams: eq compares and intersect meets every field (AND for switches, min for limits); "
                  "entails is the induced order; MAX >= CONSENSUS >= SANE and per context CONSENSUS >= SANE; "
                  "per-context constants (as evaluated by rustc) carry the specification's flags and limits")
    fields = [f["name"] for f in F.adts[VP]["variants"][0]["fields"]]
    chk.floor(rid, "ValidationParams fields", len(fields), 20)
    unknown = [f for f in fields if f not in spec.BOOL_FIELDS + spec.LIMIT_FIELDS]
    chk.obligation(rid, not unknown, "fields", "ValidationParams has fields %s unknown to the oracle: each switch needs "
                   "an enforcement site and a specification" % unknown, F.adts[VP]["span"])
    try:
        eqp = [x for x in F.fn("eq", file="validation.rs", container="ValidationParams", allow_many=True)
               if not x.startswith("<")][0]
        interp_ = F.fn("intersect", file="validation.rs", container="ValidationParams")
        entp = F.fn("entails", file="validation.rs", container="ValidationParams")
    except KeyError as e:
        chk.fail(rid, "anchors", "missing anchor %s" % e, kind="unanalysable")
        return
    chk.saw(eqp, interp_, entp)
    m = Machine(F, strict=True)
    base = params_value(F, "validation::ValidationParams::MAX")
    for f in fields:
        isbool = f in spec.BOOL_FIELDS
        dom = (False, True) if isbool else (3, 7)
        for a, b in itertools.product(dom, repeat=2):
            x = Adt(base.path, base.variant, dict(base.fields))
            y = Adt(base.path, base.variant, dict(base.fields))
            x.fields[f] = a
            y.fields[f] = b
            try:
                e = m.call_path(eqp, [x, y])
                i = m.call_path(interp_, [x, y])
                en = m.call_path(entp, [x, y])
            except (Unsupported, Panic) as ex:
                chk.fail(rid, f + "|unanalysable", "unanalysable: %s" % ex, kind="unanalysable")
                break
            chk.obligation(rid, e == (a == b), "eq|" + f,
                           "ValidationParams::eq ignores field %s (values %r vs %r compare %r)" % (f, a, b, e),
                           F.fns[eqp]["span"])
            want = (a and b) if isbool else min(a, b)
            others_ok = all(i.fields[g] == base.fields[g] for g in fields if g != f)
            chk.obligation(rid, i.fields[f] == want and others_ok, "intersect|" + f,
                           "intersect on field %s of %r and %r gives %r (expected %r; other fields untouched: %s)"
                           % (f, a, b, i.fields[f], want, others_ok), F.fns[interp_]["span"])
            want_en = ((not a) or b) if isbool else (a <= b)
            chk.obligation(rid, en == want_en, "entails|" + f,
                           "x.entails(y) with %s = %r / %r is %r, the order says %r" % (f, a, b, en, want_en),
                           F.fns[entp]["span"])
    # constants
    def leq(a, b):
        return all(((not a.fields[f]) or b.fields[f]) if f in spec.BOOL_FIELDS else a.fields[f] <= b.fields[f]
                   for f in fields)
    try:
        MAX = base
        CONS = params_value(F, "validation::ValidationParams::CONSENSUS")
        SANE = params_value(F, "validation::ValidationParams::SANE")
        chk.obligation(rid, leq(SANE, CONS) and leq(CONS, MAX), "order|global",
                       "ValidationParams::{SANE, CONSENSUS, MAX} are not ordered SANE <= CONSENSUS <= MAX",
                       F.consts["validation::ValidationParams::SANE"]["span"])
        for f in spec.SANE_FORBIDS:
            chk.obligation(rid, SANE.fields[f] is False, "SANE|" + f, "ValidationParams::SANE allows %s" % f,
                           F.consts["validation::ValidationParams::SANE"]["span"])
        for ctx in CTXS:
            cn = "<miniscript::context::%s as miniscript::context::ScriptContext>::CONSENSUS" % ctx
            sn = "<miniscript::context::%s as miniscript::context::ScriptContext>::SANE" % ctx
            c, s_ = params_value(F, cn), params_value(F, sn)
            where = F.consts[cn]["span"]
            chk.obligation(rid, leq(s_, c) and leq(c, CONS), "order|" + ctx,
                           "%s: SANE <= CONSENSUS <= ValidationParams::CONSENSUS does not hold" % ctx, where)
            chk.obligation(rid, leq(s_, SANE), "order|%s|sane" % ctx, "%s::SANE is not below ValidationParams::SANE" % ctx, where)
            for f, want in spec.CONTEXT_CONSENSUS[ctx].items():
                if f in spec.BOOL_FIELDS:
                    # the library may be tighter (forbid more), never looser
                    good = c.fields[f] == want or (want is True and c.fields[f] is False and False)
                    chk.obligation(rid, c.fields[f] == want, "%s|%s" % (ctx, f),
                                   "%s::CONSENSUS.%s = %r, the context's rule is %r" % (ctx, f, c.fields[f], want), where,
                                   detail={"context": ctx, "field": f})
                else:
                    chk.obligation(rid, c.fields[f] <= want, "%s|%s" % (ctx, f),
                                   "%s::CONSENSUS.%s = %r exceeds the context's limit %r" % (ctx, f, c.fields[f], want), where)
            for f, want in spec.SANE_LIMITS.get(ctx, {}).items():
                chk.obligation(rid, s_.fields[f] <= want, "%s|SANE|%s" % (ctx, f),
                               "%s::SANE.%s = %r exceeds the standardness limit %r" % (ctx, f, s_.fields[f], want),
                               F.consts[sn]["span"])
        chk.sample({"Legacy::CONSENSUS": {k: v for k, v in params_value(F, "<miniscript::context::Legacy as miniscript::context::ScriptContext>::CONSENSUS").fields.items() if k.startswith("max") or not v}})
    except KeyError as e:
        chk.fail(rid, "consts", "missing constant %s" % e, kind="unanalysable")
    # limits constants
    for name, want in spec.LIMITS.items():
        cn = "miniscript::limits::" + name
        try:
            got = params_value(F, cn)
            chk.obligation(rid, got == want, "limit|" + name, "limits::%s = %r, Bitcoin's value is %r" % (name, got, want),
                           F.consts[cn]["span"])
        except KeyError:
            chk.fail(rid, "limit|%s|missing" % name, "constant %s not found" % cn, kind="unanalysable")


def sym_params():
    fields = {f: Term("p", f) for f in spec.BOOL_FIELDS + spec.LIMIT_FIELDS}
    return Adt(VP, "ValidationParams", fields)


def is_param(t, f=None):
    return isinstance(t, Term) and t.op == "p" and (f is None or t.args[0] == f)


def classify(res):
    if isinstance(res, tuple) and res and res[0] == "panic":
        return ("panic",)
    if isinstance(res, Adt) and res.path == RESULT:
        if res.variant == "Ok":
            return ("ok",)
        e = res.fields["0"]
        if isinstance(e, Adt):
            if e.variant == "Key" and isinstance(e.fields.get("0"), Adt):
                return ("err", "Key:" + e.fields["0"].variant)
            return ("err", e.variant)
        return ("err", repr(e)[:60])
    if isinstance(res, Term) and res.op == "from_residual":
        inner = res.args[0]
        s = repr(inner)
        for name in ("IllegalCompressedKey", "IllegalUncompressedKey", "IllegalXOnlyKey"):
            if name in s:
                return ("err", "Key:" + name)
        return ("err", "propagated:" + s[:80])
    return ("?", repr(res)[:80])


def is_err(label):
    return label[0] in ("err", "panic")


def polarity(chk, rid, tree, where, context):
    """every decision atom that mentions a validation parameter has the right polarity"""
    seen_fields = set()
    for atom in dtree.atoms(tree):
        fields = set()

        def collect(t):
            if is_param(t):
                fields.add(t.args[0])
            return False
        dtree.mentions(atom, collect)
        if not fields:
            continue
        seen_fields |= fields
        key = "%s|%s" % (context, "+".join(sorted(fields)))
        bools = [f for f in fields if f in spec.BOOL_FIELDS]
        lims = [f for f in fields if f in spec.LIMIT_FIELDS]
        if bools and not lims:
            pols = [True if is_param(atom) else atom_polarity(atom, f) for f in bools]
            if any(p is None for p in pols) or len(set(pols)) != 1:
                chk.fail(rid, key + "|shape", "cannot determine how %s enter the condition %r" % (bools, atom), where,
                         kind="unanalysable")
                continue
            pol = pols[0]
            # pol True: the condition grows with the switch, so the Err set may only grow when it is FALSE
            cx = dtree.monotone(tree, atom, is_err, err_when=(not pol))
            chk.obligation(rid, cx is None, key,
                           "the condition %r on switch(es) %s has the wrong polarity in %s: making the parameters more "
                           "permissive turns an accepted script into a rejected one (witness assignment %r)"
                           % (atom, bools, context, cx), where)
        elif lims and not bools and len(lims) == 1:
            f = lims[0]
            form = limit_form(atom, f)
            if form is None:
                chk.fail(rid, key + "|shape", "validation limit %s is used in %r, not in a `figure > limit` "
                         "comparison" % (f, atom), where)
                continue
            cx = dtree.monotone(tree, atom, is_err, err_when=form)
            chk.obligation(rid, cx is None, key,
                           "limit %s: the comparison %r is not anti-monotone in the limit in %s (witness %r): "
                           "tightening the limit can admit more scripts" % (f, atom, context, cx), where)
        else:
            chk.fail(rid, key + "|mixed", "a single condition %r mixes validation parameters %s" % (atom, sorted(fields)),
                     where, kind="unanalysable")
    return seen_fields


def atom_polarity(atom, f):
    """how a boolean switch enters a condition built from and/or/not:
       True  = the condition is monotone increasing in the switch
       False = monotone decreasing"""
    if is_param(atom, f):
        return True
    if isinstance(atom, Term):
        if atom.op == "not":
            p = atom_polarity(atom.args[0], f)
            return None if p is None else (not p)
        if atom.op in ("and", "or"):
            ps = [atom_polarity(a, f) for a in atom.args if dtree.mentions(a, lambda t: is_param(t, f))]
            if ps and all(p is not None and p == ps[0] for p in ps):
                return ps[0]
    return None


def limit_form(atom, f):
    """True if atom == (X > p.f) / (p.f < X): true when a figure exceeds the limit or the limit is finite"""
    if not isinstance(atom, Term):
        return None
    if atom.op == "gt" and is_param(atom.args[1], f) and not dtree.mentions(atom.args[0], is_param):
        return True
    if atom.op == "lt" and is_param(atom.args[0], f) and not dtree.mentions(atom.args[1], is_param):
        return True
    if atom.op == "le" and is_param(atom.args[1], f):
        return False
    if atom.op == "ge" and is_param(atom.args[0], f):
        return False
    if atom.op == "and":
        fs = [limit_form(a, f) for a in atom.args if dtree.mentions(a, lambda t: is_param(t, f))]
        if fs and all(x is not None and x == fs[0] for x in fs):
            return fs[0]
    return None


def ms_value(node=None):
    return Adt(model.MS, "Miniscript", {"node": node if node is not None else Term("node"), "ty": Term("ty"),
                                        "ext": Term("ext"), "phantom": ()})


def check_switches(chk, F):
    rid = "R12.2"
    chk.rule(rid, "every validation switch and limit has the right polarity (tightening never admits more), is "
                  "paired with its own defect and error, and is enforced somewhere; decided on the decision trees "
                  "of validate / validate_non_top_level / validate_pk extracted symbolically")
    try:
        vp = F.fn("validate", file="miniscript/mod.rs", container="Miniscript")
        vntl = F.fn("validate_non_top_level", file="miniscript/mod.rs", container="Miniscript")
        vpk = F.fn("validate_pk", file="validation.rs")
        iterp = F.fn("iter", file="miniscript/iter.rs", container="Miniscript")
    except KeyError as e:
        chk.fail(rid, "anchors", "missing anchor %s" % e, kind="unanalysable")
        return
    chk.saw(vp, vntl, vpk)
    seen = set()
    preds = ("has_repeated_keys", "has_mixed_timelocks", "is_non_malleable", "requires_sig", "script_size",
             "max_satisfaction_witness_elements", "sat_op_count", "num_der_paths", "is_uncompressed", "is_x_only_key",
             "to_string")

    def unint(p, callee):
        return callee.get("name") in preds
    # ---- top level
    hooks = {vntl: lambda m, a, c: Term("non_top_level_result")}
    m = Machine(F, strict=False, hooks=hooks, uninterpreted=unint)
    P = sym_params()
    try:
        paths = explore(m, lambda: m.call_path(vp, [ms_value(), P]))
        tree = dtree.build(paths, classify)
    except (Unsupported, ValueError) as e:
        chk.fail(rid, "validate|unanalysable", "unanalysable: %s" % e, F.fns[vp]["span"], kind="unanalysable")
        tree = None
    if tree is not None:
        seen |= polarity(chk, rid, tree, F.fns[vp]["span"], "validate")
        labels = dtree.leaves(tree)
        for f, (errname, what) in spec.TOP_LEVEL_SWITCHES.items():
            # with the switch off and the defect present the error must be reachable; with it on, never
            on = dtree.assign(tree, {Term("p", f): True})
            chk.obligation(rid, ("err", errname) in labels and ("err", errname) not in dtree.leaves(on),
                           "validate|pair|" + f,
                           "switch %s is not paired with error %s (%s): errors reachable %s, with the switch on %s"
                           % (f, errname, what, sorted(labels), sorted(dtree.leaves(on))), F.fns[vp]["span"])
        # the non-top-level checks must run: a failure there is propagated
        chk.obligation(rid, any(l[0] == "err" and "non_top_level_result" in l[1] for l in labels), "validate|delegates",
                       "validate does not propagate the result of validate_non_top_level", F.fns[vp]["span"])
        chk.sample({"validate leaves": sorted(map(repr, labels))})
    # ---- non top level, one fragment kind at a time
    frag_fields = {}
    for v in model.variants(F):
        node = model.terminal(F, v, n=2, k=1)
        inner = ms_value(node)
        hooks = {iterp: lambda mm, a, c, inner=inner: PyIter([inner])}
        m = Machine(F, strict=False, hooks=hooks, uninterpreted=unint)

        def assume(term, taken):
            if is_param(term, "allow_inconsistent_multipath_keys"):
                return True
            return None
        try:
            paths = explore(m, lambda: m.call_path(vntl, [ms_value(node), P]), assume, max_paths=20000)
            tree = dtree.build(paths, classify)
        except (Unsupported, ValueError) as e:
            chk.fail(rid, "non_top_level|%s|unanalysable" % v, "unanalysable: %s" % e, F.fns[vntl]["span"],
                     kind="unanalysable")
            continue
        fields = polarity(chk, rid, tree, F.fns[vntl]["span"], "validate_non_top_level[%s]" % v)
        seen |= fields
        labels = dtree.leaves(tree)
        chk.obligation(rid, ("panic",) not in labels, "non_top_level|%s|panic" % v,
                       "validate_non_top_level can panic on a %s node" % v, F.fns[vntl]["span"])
        want = dict(spec.FRAGMENT_SWITCHES.get(v, {}))
        frag_specific = set(f for f in fields if f in spec.FRAGMENT_SWITCHES_ALL)
        chk.obligation(rid, frag_specific == set(want), "non_top_level|%s|switches" % v,
                       "a %s node consults fragment switches %s, the specification pairs it with %s"
                       % (v, sorted(frag_specific), sorted(want)), F.fns[vntl]["span"])
        for f, errname in want.items():
            on = dtree.assign(tree, {Term("p", f): True})
            off = dtree.assign(tree, {Term("p", f): False})
            chk.obligation(rid, ("err", errname) in dtree.leaves(off) and ("err", errname) not in dtree.leaves(on),
                           "non_top_level|%s|pair|%s" % (v, f),
                           "%s node: switch %s off must give %s (reachable errors: off %s / on %s)"
                           % (v, f, errname, sorted(dtree.leaves(off)), sorted(dtree.leaves(on))), F.fns[vntl]["span"])
        keysw = set(f for f in fields if f in spec.KEY_SWITCHES)
        if v in spec.KEY_VARIANTS:
            chk.obligation(rid, keysw == set(spec.KEY_SWITCHES), "non_top_level|%s|keys" % v,
                           "keys of a %s node are validated against %s (expected all of %s)"
                           % (v, sorted(keysw), spec.KEY_SWITCHES), F.fns[vntl]["span"])
        else:
            chk.obligation(rid, not keysw, "non_top_level|%s|keys" % v,
                           "a %s node has no keys but consults %s" % (v, sorted(keysw)), F.fns[vntl]["span"])
        if v == "False":
            for f, (errname, what) in spec.GLOBAL_SWITCHES.items():
                on = dtree.assign(tree, {Term("p", f): True})
                chk.obligation(rid, ("err", errname) in labels and ("err", errname) not in dtree.leaves(on),
                               "non_top_level|pair|" + f, "switch %s is not paired with %s" % (f, errname),
                               F.fns[vntl]["span"])
            for f, errname in spec.LIMIT_ERRORS.items():
                chk.obligation(rid, ("err", errname) in labels, "non_top_level|limit|" + f,
                               "limit %s has no reachable %s error" % (f, errname), F.fns[vntl]["span"])
            chk.sample({"validate_non_top_level leaves": sorted(map(repr, labels))})
    # ---- multipath switch (small exploration)
    node = model.terminal(F, "PkK")
    hooks = {iterp: lambda mm, a, c: PyIter([ms_value(node)])}
    m = Machine(F, strict=False, hooks=hooks, uninterpreted=unint)
    try:
        paths = explore(m, lambda: m.call_path(vntl, [ms_value(node), P]), max_paths=20000)
        tree = dtree.build(paths, classify)
        seen |= polarity(chk, rid, tree, F.fns[vntl]["span"], "validate_non_top_level[multipath]")
    except (Unsupported, ValueError) as e:
        chk.fail(rid, "non_top_level|multipath|unanalysable", "unanalysable: %s" % e, kind="unanalysable")
    missing = [f for f in spec.BOOL_FIELDS + spec.LIMIT_FIELDS if f not in seen]
    chk.obligation(rid, not missing, "coverage", "validation parameters %s are never consulted by validate / "
                   "validate_non_top_level: the switch does nothing" % missing, F.fns[vntl]["span"])
    chk.floor(rid, "enforced validation parameters", len(seen), 20)


spec.FRAGMENT_SWITCHES_ALL = set(f for d in spec.FRAGMENT_SWITCHES.values() for f in d)


def check_validate_pk(chk, F):
    rid = "R12.2k"
    chk.rule(rid, "validate_pk: exact table over (3 key switches) x (key kind) equals the specification: a key kind "
                  "is rejected iff its switch is off (compressed keys also pass as x-only)")
    try:
        vpk = F.fn("validate_pk", file="validation.rs")
    except KeyError as e:
        chk.fail(rid, "anchor", "missing %s" % e, kind="unanalysable")
        return
    chk.saw(vpk)
    base = params_value(F, "validation::ValidationParams::MAX")
    for ac, au, ax in itertools.product((False, True), repeat=3):
        for kind in ("compressed", "uncompressed", "x_only"):
            P = Adt(base.path, base.variant, dict(base.fields))
            P.fields.update(allow_compressed_keys=ac, allow_uncompressed_keys=au, allow_x_only_keys=ax)
            hooks = {"MiniscriptKey::is_uncompressed": lambda m, a, c, k=kind: k == "uncompressed",
                     "MiniscriptKey::is_x_only_key": lambda m, a, c, k=kind: k == "x_only"}
            m = Machine(F, strict=False, hooks=hooks)
            try:
                r = m.call_path(vpk, [P, Term("key")])
            except (Unsupported, Panic) as e:
                chk.fail(rid, "unanalysable", "unanalysable: %s" % e, kind="unanalysable")
                return
            got_ok = isinstance(r, Adt) and r.variant == "Ok"
            want_ok = {"compressed": ac or ax, "uncompressed": au, "x_only": ax}[kind]
            chk.obligation(rid, got_ok == want_ok, "validate_pk|%s" % kind,
                           "validate_pk(compressed=%s, uncompressed=%s, x_only=%s) on a %s key: %s, specification %s"
                           % (ac, au, ax, kind, "accepts" if got_ok else "rejects", "accepts" if want_ok else "rejects"),
                           F.fns[vpk]["span"])


def check_context_tables(chk, F):
    rid = "R12.2c"
    chk.rule(rid, "per-context node checks (ScriptContext::check_global_consensus_validity): each context rejects "
                  "exactly the fragments and key kinds its rules forbid, for every Terminal variant")
    for ctx in CTXS:
        ps = [p for p in F.fn("check_global_consensus_validity", file="miniscript/context.rs", allow_many=True)
              if ("::%s as " % ctx) in p]
        if len(ps) != 1:
            chk.fail(rid, ctx + "|anchor", "check_global_consensus_validity for %s not found" % ctx, kind="unanalysable")
            continue
        p = ps[0]
        chk.saw(p)
        where = F.fns[p]["span"]
        for v in model.variants(F):
            for kind in ("compressed", "uncompressed", "x_only"):
                if v not in spec.KEY_VARIANTS and kind != "compressed":
                    continue
                node = model.terminal(F, v, n=2, k=1)
                ms = Adt(model.MS, "Miniscript", {"node": node, "ty": Term("ty"), "phantom": (),
                                                  "ext": Adt("miniscript::types::extra_props::ExtData", "ExtData",
                                                             {"pk_cost": 10})})
                hooks = {"MiniscriptKey::is_uncompressed": lambda m, a, c, k=kind: k == "uncompressed",
                         "MiniscriptKey::is_x_only_key": lambda m, a, c, k=kind: k == "x_only"}
                m = Machine(F, strict=False, hooks=hooks,
                            uninterpreted=lambda pp, c: c.get("name") in ("to_string", "name_str"))
                try:
                    res = explore(m, lambda: m.call_path(p, [ms]))
                except Unsupported as e:
                    chk.fail(rid, "%s|%s|unanalysable" % (ctx, v), "unanalysable: %s" % e, where, kind="unanalysable")
                    break
                labels = set(classify(r) for c, r in res)
                # size limits are checked by the same function; they are not fragment / key rules
                sizeerr = set(l for l in labels if l[0] == "err" and "Size" in l[1])
                core = labels - sizeerr
                rejected = bool(core) and all(is_err(l) for l in core)
                accepted = core == {("ok",)}
                want_reject = v in spec.CONTEXT_REJECTS[ctx]
                # key kinds are enforced on every fragment that carries a key: from_ast and the compiler rely on this
                # function alone (ValidationParams::validate_pk only runs on the parser's paths)
                if v in ("PkK", "PkH", "Multi", "SortedMulti", "MultiA", "SortedMultiA") and not want_reject:
                    if kind in spec.CONTEXT_KEY_REJECTS[ctx]:
                        want_reject = True
                key = "%s|%s|%s" % (ctx, v, kind) if v in spec.KEY_VARIANTS else "%s|%s" % (ctx, v)
                chk.obligation(rid, (rejected and want_reject) or (accepted and not want_reject), key,
                               "%s context: a %s fragment (%s key) is %s, the context's rules say %s"
                               % (ctx, v, kind, "rejected" if rejected else ("accepted" if accepted else "mixed %s" % sorted(labels)),
                                  "reject" if want_reject else "accept"), where,
                               detail={"context": ctx, "variant": v, "labels": sorted(map(repr, labels))})
    chk.sample({"context tables": "4 contexts x 30 variants x key kinds"})


def check_timelock_step(chk, F):
    rid = "R12.5"
    chk.rule(rid, "TimelockInfo::combine_threshold: exact truth table of the fold (2^5 x 2^5 flag pairs, k=1 and "
                  "k=2) equals the specification's mixed-time-lock step; and/or pass k = 2 / 1")
    try:
        ct = F.fn("combine_threshold", file="types/extra_props.rs")
        ca = F.fn("combine_and", file="types/extra_props.rs")
        co = F.fn("combine_or", file="types/extra_props.rs")
    except KeyError as e:
        chk.fail(rid, "anchor", "missing %s" % e, kind="unanalysable")
        return
    chk.saw(ct, ca, co)
    TL = "miniscript::types::extra_props::TimelockInfo"
    flags = ["csv_with_height", "csv_with_time", "cltv_with_height", "cltv_with_time", "contains_combination"]

    def mk(bits):
        return Adt(TL, "TimelockInfo", dict(zip(flags, bits)))
    m = Machine(F, strict=True)
    zero = dict.fromkeys(flags, False)
    bad = 0
    try:
        for a in itertools.product((False, True), repeat=5):
            for b in itertools.product((False, True), repeat=5):
                for k in (1, 2):
                    r = m.call_path(ct, [k, PyVec([mk(a), mk(b)])])
                    want = spec.timelock_step(k, spec.timelock_step(k, zero, dict(zip(flags, a))), dict(zip(flags, b)))
                    got = {f: r.fields[f] for f in flags}
                    if got != want:
                        bad += 1
                        if bad <= 3:
                            chk.fail(rid, "combine_threshold", "combine_threshold(k=%d, %r, %r) = %r, specification %r"
                                     % (k, dict(zip(flags, a)), dict(zip(flags, b)), got, want), F.fns[ct]["span"])
                    else:
                        chk.ok(rid)
        # three children: conflict between first and third
        for k in (1, 2, 3):
            a = mk((True, False, False, False, False))
            b = mk((False, False, False, False, False))
            c = mk((False, True, False, False, False))
            r = m.call_path(ct, [k, PyVec([a, b, c])])
            chk.obligation(rid, r.fields["contains_combination"] == (k > 1), "combine_threshold|3",
                           "combine_threshold(k=%d) over (height, -, time) gives combination=%r" % (k, r.fields["contains_combination"]),
                           F.fns[ct]["span"])
        x, y = mk((True, False, False, False, False)), mk((False, True, False, False, False))
        ra = m.call_path(ca, [x, y])
        ro = m.call_path(co, [x, y])
        chk.obligation(rid, ra.fields["contains_combination"] is True and ro.fields["contains_combination"] is False,
                       "combine_and_or", "combine_and / combine_or of (height, time) give %r / %r (expected conflict / none)"
                       % (ra.fields["contains_combination"], ro.fields["contains_combination"]), F.fns[ca]["span"])
    except (Unsupported, Panic) as e:
        chk.fail(rid, "unanalysable", "unanalysable: %s" % e, kind="unanalysable")


# ---- R12.6 range gates ------------------------------------------------------------------------------------------------

def check_ranges(chk, F):
    from . import c06, decoder
    from ..interp import Machine, Adt, PyVec, Panic
    rid = "R12.6"
    chk.rule(rid, "numbers are in range on every way in: relative / absolute lock times are accepted exactly for 1 <= n < 2^31 "
                  "(constructor, text parser, script decoder); thresh / multi / multi_a accept exactly 1 <= k <= n, n within "
                  "the context's key limit (text parser; decoder for CHECKMULTISIG)")
    m = Machine(F, strict=True)
    N = [0, 1, 2, 65535, 65536, 1 << 22, (1 << 22) | 5, 499999999, 500000000, (1 << 31) - 1, 1 << 31, (1 << 31) + 5, (1 << 32) - 1]
    for nm, path in (("RelLockTime", "primitives::relative_locktime::RelLockTime::from_consensus"),
                     ("AbsLockTime", "primitives::absolute_locktime::AbsLockTime::from_consensus")):
        if path not in F.fns:
            chk.fail(rid, "anchor|" + nm, "%s::from_consensus not found" % nm, kind="unanalysable")
            continue
        chk.saw(path)
        for n in N:
            try:
                r = m.call_path(path, [n])
                chk.obligation(rid, (r.variant == "Ok") == (1 <= n < (1 << 31)), "%s|%d" % (nm, n),
                               "%s::from_consensus(%d) is %s; lock times are valid exactly for 1 <= n < 2^31" % (nm, n, r.variant),
                               F.fns[path]["span"])
            except (Unsupported, Panic) as e:
                chk.fail(rid, "%s|%d" % (nm, n), "%s on %d: %s" % (nm, n, e), kind="unanalysable" if isinstance(e, Unsupported) else "violation")
    T_ = c06.Typer(F)
    keys = "ABCDEFGHIJKLMNOPQRSTUVWXYZ"

    def accepts(text, ctx):
        try:
            return T_.type_of(text, ctx) is not None
        except Panic:
            return "panic"
    cases = []
    for n in N + [1 << 32, (1 << 32) + 1]:
        ok_ = 1 <= n < (1 << 31)
        cases += [("older(%d)" % n, "segwitv0", ok_), ("after(%d)" % n, "segwitv0", ok_), ("and_v(v:pk(A),older(%d))" % n, "tap", ok_)]
    for k in range(0, 5):
        ok_ = 1 <= k <= 3
        cases += [("thresh(%d,pk(A),s:pk(B),s:pk(C))" % k, "segwitv0", ok_), ("multi(%d,A,B,C)" % k, "segwitv0", ok_),
                  ("multi_a(%d,A,B,C)" % k, "tap", ok_), ("sortedmulti(%d,A,B,C)" % k, "segwitv0", ok_),
                  ("sortedmulti_a(%d,A,B,C)" % k, "tap", ok_)]
    for n_keys in (19, 20, 21, 22):
        ks = ",".join((keys + "abcdef")[i] for i in range(n_keys))
        cases.append(("multi(2,%s)" % ks, "segwitv0", n_keys <= 20))
        cases.append(("sortedmulti(2,%s)" % ks, "segwitv0", n_keys <= 20))
    cases += [("thresh(1)", "segwitv0", False), ("multi(1)", "segwitv0", False), ("multi_a(1)", "tap", False),
              ("thresh(18446744073709551616,pk(A))", "segwitv0", False), ("older(-1)", "segwitv0", False)]
    n_cases = 0
    for text, ctx, want in cases:
        n_cases += 1
        try:
            got = accepts(text, ctx)
            chk.obligation(rid, got == want, "text|%s|%s" % (ctx, text if len(text) < 60 else text[:40] + ".."),
                           "the %s parser %s `%s`; it is %s" % (ctx, "accepts" if got is True else ("panics on" if got == "panic" else "rejects"),
                                                                text[:80], "in range" if want else "out of range"),
                           "src/miniscript/astelem.rs")
        except Unsupported as e:
            chk.fail(rid, "unanalysable:" + text[:60], "unanalysable: %s" % e, where=e.where, kind="unanalysable")
    # the script decoder
    D = decoder.Decoder(F)
    X = decoder.X

    def num(n):
        if n == 0:
            return ("op", 0)
        if 1 <= n <= 16:
            return ("op", 0x50 + n)
        return ("push", PyVec(decoder.scriptint_bytes(n)))
    dcases = []
    for n in [0, 1, 16, 17, 65535, 65536, (1 << 31) - 1, 1 << 31, (1 << 32) - 1]:
        ok_ = 1 <= n < (1 << 31)
        dcases.append(("%d CSV" % n, [num(n), ("op", 0xb2)], "segwitv0", ok_))
        dcases.append(("%d CLTV" % n, [num(n), ("op", 0xb1)], "segwitv0", ok_))
    KA, KB, KC = (("push", X.key(x, "ecdsa")) for x in "ABC")
    for k in range(0, 5):
        dcases.append(("%d A B C 3 CHECKMULTISIG" % k, [num(k), KA, KB, KC, num(3), ("op", 0xae)], "segwitv0", 1 <= k <= 3))
    for nn in (0, 2, 4):
        dcases.append(("1 A B C %d CHECKMULTISIG" % nn, [num(1), KA, KB, KC, num(nn), ("op", 0xae)], "segwitv0", False))
    for name, ins, ctx, want in dcases:
        n_cases += 1
        try:
            r = D.decode(ins, ctx, params="MAX") if False else D.decode(ins, ctx)
            got = isinstance(r, Adt) and r.variant == "Ok"
            # a lone lock time is not a valid top-level script for other reasons: judge the fragment inside and_v(v:pk(A), .)
            if name.endswith(("CSV", "CLTV")):
                r = D.decode([KA, ("op", 0xad)] + ins, ctx)
                got = isinstance(r, Adt) and r.variant == "Ok"
            chk.obligation(rid, got == want, "script|" + name, "the decoder %s `%s`; it is %s" % ("accepts" if got else "rejects", name,
                           "in range" if want else "out of range"), "src/miniscript/decode.rs")
        except Panic as e:
            chk.fail(rid, "script|" + name, "the decoder panics on `%s`: %s" % (name, e), "src/miniscript/decode.rs")
        except Unsupported as e:
            chk.fail(rid, "unanalysable:script|" + name, "unanalysable: %s" % e, where=e.where, kind="unanalysable")
    chk.floor(rid, "range cases", n_cases, 100)


# ---- R12.9 what kind of key a key is ---------------------------------------------------------------------------------------------

def check_key_kinds(chk, F):
    from ..interp import Machine, Adt, Term, PyVec, Panic, NONE
    from ..report import Unsupported
    rid = "R12.9"
    chk.rule(rid, "the key-kind predicates the context rules are decided on (MiniscriptKey::is_uncompressed / is_x_only_key / "
                  "num_der_paths), for every key type of the crate: a full key is uncompressed exactly when its flag says so, "
                  "only x-only keys are x-only, extended keys are neither and have 1 (single path) or n (multipath) "
                  "derivation paths, wrappers answer as the key they wrap (every impl of the trait must be in this table)")
    K = "descriptor::key::"
    imps = {i.get("self_adt") or i.get("self_ty"): i for i in F.impls if (i["trait"] or "").endswith("MiniscriptKey")}
    default_unc = "MiniscriptKey::is_uncompressed"
    if default_unc not in F.bodies:
        chk.fail(rid, "anchor", "MiniscriptKey::is_uncompressed default not found", kind="unanalysable")
        return

    def pk(c):
        return Adt("bitcoin::PublicKey", "PublicKey", {"compressed": c, "inner": Term("secp-key")})

    def single(key):
        return Adt(K + "SinglePub", "SinglePub", {"origin": NONE, "key": key})

    def full(c):
        return Adt(K + "SinglePubKey", "FullKey", {"0": pk(c)})
    xo = Adt(K + "SinglePubKey", "XOnly", {"0": Term("xonly-key")})

    def paths(n):
        return Adt(K + "DerivPaths", "DerivPaths", {"0": PyVec([PyVec([]) for _ in range(n)])})
    xkey = Adt(K + "DescriptorXKey", "DescriptorXKey", {"origin": NONE, "xkey": Term("xpub"), "derivation_path": PyVec([]),
                                                        "wildcard": Term("wc")})

    def mxkey(n):
        return Adt(K + "DescriptorMultiXKey", "DescriptorMultiXKey", {"origin": NONE, "xkey": Term("xpub"), "derivation_paths": paths(n),
                                                                      "wildcard": Term("wc")})

    def dpk(v, inner):
        return Adt(K + "DescriptorPublicKey", v, {"0": inner})
    KX = "descriptor::wallet_policy::key_expression::KeyExpression"
    BK = "interpreter::BitcoinKey"
    # type -> [(label, value, (uncompressed, x-only, paths))]; None = not judged (no context looks at it)
    table = {
        "bitcoin::secp256k1::PublicKey": [("key", Term("secp-key"), (False, False, 0))],
        "bitcoin::PublicKey": [("compressed", pk(True), (False, False, 0)), ("uncompressed", pk(False), (True, False, 0))],
        "bitcoin::XOnlyPublicKey": [("key", Term("xonly-key"), (False, True, 0))],
        "std::string::String": [("name", "A", (False, False, 0))],
        K + "SinglePub": [("compressed", single(full(True)), (False, False, 0)), ("uncompressed", single(full(False)), (True, False, 0)),
                          ("x-only", single(xo), (False, True, 0))],
        K + "DescriptorXKey": [("xpub", xkey, (False, False, 1))],
        K + "DescriptorMultiXKey": [("2 paths", mxkey(2), (False, False, 2)), ("3 paths", mxkey(3), (False, False, 3))],
        K + "DescriptorPublicKey": [("single compressed", dpk("Single", single(full(True))), (False, False, 0)),
                                    ("single uncompressed", dpk("Single", single(full(False))), (True, False, 0)),
                                    ("single x-only", dpk("Single", single(xo)), (False, True, 0)),
                                    ("xpub", dpk("XPub", xkey), (False, False, 1)), ("multi 3", dpk("MultiXPub", mxkey(3)), (False, False, 3))],
        K + "DefiniteDescriptorKey": [("single uncompressed", Adt(K + "DefiniteDescriptorKey", "DefiniteDescriptorKey", {"0": dpk("Single", single(full(False)))}), (True, False, 0)),
                                      ("single x-only", Adt(K + "DefiniteDescriptorKey", "DefiniteDescriptorKey", {"0": dpk("Single", single(xo))}), (False, True, 0)),
                                      ("xpub", Adt(K + "DefiniteDescriptorKey", "DefiniteDescriptorKey", {"0": dpk("XPub", xkey)}), (False, False, 1))],
        KX: [("2 paths", Adt(KX, "KeyExpression", {"index": Term("i"), "derivation_paths": paths(2), "wildcard": Term("wc")}), (False, False, 2))],
        # the interpreter's key wrapper lives in the NoChecks context only: is_x_only_key is not looked at there
        BK: [("full compressed", Adt(BK, "Fullkey", {"0": pk(True)}), (False, None, 0)), ("full uncompressed", Adt(BK, "Fullkey", {"0": pk(False)}), (True, None, 0)),
             ("x-only", Adt(BK, "XOnlyPublicKey", {"0": Term("xonly-key")}), (False, None, 0))],
    }
    for ty in sorted(imps):
        if ty not in table:
            chk.fail(rid, "unlisted|" + ty, "impl MiniscriptKey for %s is not in the checker's key-kind table" % ty, F.adts.get(ty, {}).get("span", ""))
    m = Machine(F, strict=True)
    n = 0
    for ty, rows in sorted(table.items()):
        imp = imps.get(ty)
        if imp is None:
            chk.fail(rid, "anchor|" + ty, "impl MiniscriptKey for %s not found" % ty, kind="unanalysable")
            continue
        items = {it["name"]: it["path"] for it in imp["items"]}
        for label, val, want in rows:
            for nm, w in zip(("is_uncompressed", "is_x_only_key", "num_der_paths"), want):
                if w is None:
                    continue
                p = items.get(nm) or (default_unc if nm == "is_uncompressed" else None)
                if p is None or p not in F.bodies:
                    chk.fail(rid, "anchor|%s|%s" % (ty, nm), "%s::%s not found" % (ty, nm), kind="unanalysable")
                    continue
                chk.saw(p)
                try:
                    got = m.call_path(p, [val])
                    n += 1
                    chk.obligation(rid, got == w and type(got) is type(w), "%s|%s|%s" % (ty.split("::")[-1], label, nm),
                                   "%s of a %s %s is %r, expected %r" % (nm, label, ty, got, w), F.fns[p]["span"])
                except Unsupported as e:
                    chk.fail(rid, "unanalysable:%s|%s|%s" % (ty, label, nm), "unanalysable: %s" % e, where=e.where, kind="unanalysable")
                except Panic as e:
                    chk.fail(rid, "%s|%s|%s" % (ty, label, nm), "panic: %s" % e, F.fns[p]["span"])
    chk.floor(rid, "predicate values", n, 60)


# ---- R12.10 what a bare output may hold ----------------------------------------------------------------------------------------------

def check_other_top_level(chk, F):
    from ..interp import Machine, Adt, Term, PyVec, Panic
    from ..report import Unsupported
    from .. import model
    from . import c19
    rid = "R12.10"
    chk.rule(rid, "ScriptContext::other_top_level_checks, evaluated for every context on every fragment kind at the top level "
                  "(and, below c:, on every key fragment): a bare output holds only the standard bare scripts - pay-to-pubkey "
                  "(c:pk_k), pay-to-pubkey-hash (c:pk_h / c:expr_raw_pkh) and multi / sortedmulti with at most 3 keys (every k) - "
                  "and the other contexts add no restriction here")
    T = model.TERMINAL
    MS = model.MS
    n = 0
    for ctx in ("BareCtx", "Legacy", "Segwitv0", "Tap"):
        p = "<miniscript::context::%s as miniscript::context::ScriptContext>::other_top_level_checks" % ctx
        if p not in F.bodies:
            p = "miniscript::context::ScriptContext::other_top_level_checks"      # the trait's default
            if p not in F.bodies:
                chk.fail(rid, "anchor|" + ctx, "other_top_level_checks of %s not found" % ctx, kind="unanalysable")
                continue
        chk.saw(p)
        m = Machine(F, strict=True)

        def ms_of(node):
            return Adt(MS, "Miniscript", {"node": node, "ty": Term("ty"), "ext": Term("ext"), "phantom": ()})
        cases = []
        for v in model.variants(F):
            if v in ("Multi", "SortedMulti", "MultiA", "SortedMultiA"):
                for nk in range(1, 6):
                    for k in sorted({1, nk}):
                        node = c19.mk_term(F, v, n=nk, k=k)
                        cases.append(("%s(%d of %d)" % (v, k, nk), node, v in ("Multi", "SortedMulti") and nk <= 3))
            elif v == "Check":
                for inner in model.variants(F):
                    if inner in ("Multi", "SortedMulti", "MultiA", "SortedMultiA", "Thresh"):
                        continue
                    node = c19.mk_term(F, "Check", n=3, k=2)
                    fld = [k_ for k_, x in node.fields.items() if isinstance(x, Adt) and x.path == MS][0]
                    node.fields[fld] = ms_of(c19.mk_term(F, inner, n=3, k=2))
                    cases.append(("c:%s" % inner, node, inner in ("PkK", "PkH", "RawPkH")))
            else:
                cases.append((v, c19.mk_term(F, v, n=3, k=2), False))
        bad = []
        try:
            for label, node, bare_ok in cases:
                r = m.call_callee({"def": p, "resolved": p, "name": "other_top_level_checks", "targs": ["PK"],
                                   "self_ty": "miniscript::context::" + ctx}, [ms_of(node)])
                n += 1
                want = bare_ok if ctx == "BareCtx" else True
                if (r.variant == "Ok") != want:
                    bad.append("%s at the top level is %s" % (label, "accepted" if r.variant == "Ok" else "refused (%s)" % repr(r)[:60]))
                elif not want and "NonStandardBareScript" not in repr(r):
                    bad.append("%s is refused with %s" % (label, repr(r)[:80]))
            chk.obligation(rid, not bad, ctx, "%d fragment(s); first: %s" % (len(bad), bad[0] if bad else ""), F.fns[p]["span"], detail=bad[:10])
        except Unsupported as e:
            chk.fail(rid, "unanalysable:" + ctx, "unanalysable: %s" % e, where=e.where, kind="unanalysable")
        except Panic as e:
            chk.fail(rid, ctx, "panic: %s" % e, F.fns[p]["span"])
    chk.floor(rid, "cases", n, 250)


# ---- R12.12 which parameter set each parsing / decoding entry point applies ------------------------------------------------------------

def check_entry_params(chk, F):
    from ..interp import Machine, Adt, Term, Panic, ok
    from ..report import Unsupported
    from ..builtins import deref
    rid = "R12.12"
    chk.rule(rid, "the miniscript entry points apply the parameter set their name promises, in every context: FromStr and "
                  "decode validate against the context's SANE parameters, decode_consensus against its CONSENSUS parameters, "
                  "from_str_insane against CONSENSUS with raw public-key hashes disallowed; each hands exactly its input to the "
                  "parameterised parser / decoder and returns its result")
    M = "Miniscript<Pk, Ctx>>::"
    try:
        dwp = [q for q in F.fns if q.endswith("::decode_with_validation_params")][0]
        fwp = [q for q in F.fns if q.endswith("::from_str_with_validation_params")][0]
        ent = {"decode": [q for q in F.fns if q.endswith("Ctx>>::decode") or q.endswith("Ctx>::decode")][0],
               "decode_consensus": [q for q in F.fns if q.endswith("::decode_consensus")][0],
               "from_str_insane": [q for q in F.fns if q.endswith("::from_str_insane")][0],
               "from_str": [it["path"] for i in F.impls if i["trait"] == "std::str::FromStr" and i["self_adt"] == "miniscript::private::Miniscript"
                            for it in i["items"] if it["name"] == "from_str"][0]}
    except IndexError:
        chk.fail(rid, "anchor", "decode / decode_consensus / from_str / from_str_insane or their parameterised versions not found", kind="unanalysable")
        return
    chk.saw(*ent.values())
    n = 0
    for ctx in ("Legacy", "Segwitv0", "Tap", "BareCtx"):
        ctxp = "miniscript::context::" + ctx
        try:
            sane = params_value(F, "<%s as miniscript::context::ScriptContext>::SANE" % ctxp)
            cons = params_value(F, "<%s as miniscript::context::ScriptContext>::CONSENSUS" % ctxp)
        except KeyError as e:
            chk.fail(rid, "anchor|" + ctx, "missing %s" % e, kind="unanalysable")
            continue
        insane = Adt(cons.path, cons.variant, dict(cons.fields))
        insane.fields["allow_raw_pkh"] = False
        want = {"decode": sane, "decode_consensus": cons, "from_str": sane, "from_str_insane": insane}
        for name, path in sorted(ent.items()):
            seen = []

            def hook(m_, a, c):
                seen.append((deref(a[0]), deref(a[1])))
                return ok(Term("parsed"))
            m = Machine(F, strict=True, hooks={dwp: hook, fwp: hook})
            try:
                r = m.call_callee({"def": path, "resolved": path, "name": name, "targs": ["std::string::String", ctxp],
                                   "self_ty": "miniscript::private::Miniscript<std::string::String, %s>" % ctxp}, ["INPUT"])
                n += 1
                same = len(seen) == 1 and isinstance(seen[0][1], Adt) and set(seen[0][1].fields) == set(want[name].fields) and \
                    all(repr(seen[0][1].fields[k]) == repr(want[name].fields[k]) for k in want[name].fields)
                good = same and seen[0][0] == "INPUT" \
                    and isinstance(r, Adt) and r.variant == "Ok" and repr(deref(r.fields["0"])) == repr(Term("parsed"))
                diff = []
                if len(seen) == 1 and isinstance(seen[0][1], Adt):
                    diff = [k for k in want[name].fields if repr(seen[0][1].fields.get(k)) != repr(want[name].fields[k])]
                chk.obligation(rid, good, "%s|%s" % (name, ctx), "%s in %s validates with parameters that differ from the promised set in %r "
                               "(calls: %d, result %s)" % (name, ctx, diff, len(seen), repr(r)[:60]), F.fns[path]["span"])
            except Unsupported as e:
                chk.fail(rid, "unanalysable:%s|%s" % (name, ctx), "unanalysable: %s" % e, where=e.where, kind="unanalysable")
            except Panic as e:
                chk.fail(rid, "%s|%s" % (name, ctx), "panic: %s" % e, F.fns[path]["span"])
    chk.floor(rid, "entry point x context", n, 16)


# ---- R12.14 the defect predicates behind the switches ------------------------------------------------------------------------------------

def check_defect_predicates(chk, F, rid="R12.14"):
    import re
    from ..interp import Machine, Adt, Term, Panic
    from ..report import Unsupported
    from . import c06
    chk.rule(rid, "the predicates the validation switches test: has_repeated_keys (behind allow_duplicate_keys) holds exactly "
                  "when some key name occurs twice among the script's pk / pkh / multi keys - adjacent or not, in the same "
                  "fragment or far apart; contains_raw_pkh (behind allow_raw_pkh) exactly when a raw key-hash fragment occurs; "
                  "on whole scripts parsed by evaluating the parser")
    try:
        hrk = [q for q in F.fns if q.endswith("::has_repeated_keys")][0]
        crp = [q for q in F.fns if q.endswith("::contains_raw_pkh")][0]
    except IndexError:
        chk.fail(rid, "anchor", "has_repeated_keys / contains_raw_pkh not found", kind="unanalysable")
        return
    chk.saw(hrk, crp)
    T_ = c06.Typer(F)
    m = T_.m
    H20 = "1212121212121212121212121212121212121212"
    texts = ["pk(A)", "and_v(v:pk(A),pk(B))", "and_v(v:pk(A),pk(A))", "and_v(v:pkh(A),pk(A))", "thresh(2,pk(A),s:pk(B),s:pk(A))",
             "thresh(2,pk(A),s:pk(B),s:pk(C))", "andor(pk(A),pk(B),pk(A))", "andor(pk(A),pk(B),pk(C))", "or_d(pk(A),and_v(v:pk(B),pk(A)))",
             "multi(2,A,B,C)", "multi(2,A,B,A)", "and_v(v:multi(1,A,B),pk(B))", "and_v(v:multi(1,A,B),pk(C))",
             "or_i(and_v(v:pk(A),pk(B)),and_v(v:pk(C),pk(A)))", "or_i(and_v(v:pk(A),pk(B)),and_v(v:pk(C),pk(D)))",
             "t:or_c(pk(A),v:pk(A))", "t:or_c(pk(A),v:pk(B))", "and_v(v:pk(A),and_v(v:pk(B),and_v(v:pk(C),pk(A))))",
             "c:expr_raw_pkh(%s)" % H20, "and_v(vc:expr_raw_pkh(%s),pk(A))" % H20, "or_d(pk(A),and_v(v:pk(B),c:expr_raw_pkh(%s)))" % H20]
    n = 0
    for text in texts:
        for ctx in ("segwitv0",):
            key = text.replace(H20, "H20")
            try:
                tr = tm.parse_tree(F, m, text)
                ri = m.call_path(T_.root, [tr.fields["0"]])
                st = "miniscript::private::Miniscript<std::string::String, %s>" % c06.CTX[ctx]
                r = m.call_callee({"def": "expression::FromTree::from_tree", "resolved": T_.ft, "name": "from_tree",
                                   "trait": "expression::FromTree",
                                   "resolved_container": "miniscript::<impl expression::FromTree for miniscript::private::Miniscript<Pk, Ctx>>",
                                   "self_ty": st, "targs": [st]}, [ri])
                if not (isinstance(r, Adt) and r.variant == "Ok"):
                    chk.fail(rid, "unanalysable:" + key, "family text does not parse: %s" % repr(r)[:120], kind="unanalysable")
                    continue
                msv = r.fields["0"]
                names = re.findall(r"(?<![a-z_0-9])([A-D])(?![a-z_0-9(])", text.replace(H20, ""))
                want_dup = len(names) != len(set(names))
                want_raw = "expr_raw_pkh" in text
                got_dup = m.call_callee({"def": hrk, "resolved": hrk, "name": "has_repeated_keys", "targs": ["std::string::String", c06.CTX[ctx]]}, [msv])
                got_raw = m.call_callee({"def": crp, "resolved": crp, "name": "contains_raw_pkh", "targs": ["std::string::String", c06.CTX[ctx]]}, [msv])
                n += 1
                chk.obligation(rid, got_dup is want_dup, "has_repeated_keys|" + key, "has_repeated_keys of %s is %r (keys %r)" % (key, got_dup, names),
                               F.fns[hrk]["span"])
                chk.obligation(rid, got_raw is want_raw, "contains_raw_pkh|" + key, "contains_raw_pkh of %s is %r" % (key, got_raw), F.fns[crp]["span"])
            except Unsupported as e:
                chk.fail(rid, "unanalysable:" + key, "unanalysable: %s" % e, where=e.where, kind="unanalysable")
            except Panic as e:
                chk.fail(rid, key, "panic: %s" % e, F.fns[hrk]["span"])
    chk.floor(rid, "scripts", n, 20)


# ---- R12.16 Tr::new: the programmatic constructor of taproot descriptors ----------------------------------------------------

def check_tr_new(chk, F, rid="R12.16"):
    from ..interp import Machine, Adt, Term, PyVec, Panic, ok, err, some, NONE
    from ..builtins import deref
    chk.rule(rid, "Tr::new (behind Descriptor::new_tr, the taproot compilers and Tr::translate_pk) accepts a tree only if the "
                  "internal key passes the Tapscript key rule and *every* leaf passes the context's top-level checks (a complete "
                  "B script of the Tapscript context, as the parser requires of each leaf): decision table over trees of 0..3 "
                  "leaves with the failing leaf in every position")
    try:
        trnew = [q for q in F.fns if q.endswith("descriptor::tr::Tr::<Pk>::new")][0]
    except IndexError:
        chk.fail(rid, "anchor", "Tr::new not found", kind="unanalysable")
        return
    chk.saw(trnew)
    TT = "descriptor::tr::taptree::TapTree"
    bad = set()
    seen = []

    def tlc(m_, a, c):
        v = deref(a[0])
        name = v.fields.get("name") if isinstance(v, Adt) else v
        seen.append(name)
        return err(Term("top-level", name)) if name in bad else ok(())
    hooks = {}
    for q in F.fns:
        if q.endswith("ScriptContext::top_level_checks") or q.endswith("::top_level_checks"):
            hooks[q] = tlc
    hooks["miniscript::context::ScriptContext::top_level_checks"] = tlc
    keybad = [False]

    def cpk(m_, a, c):
        return err(Term("key-rule")) if keybad[0] else ok(())
    for q in F.fns:
        if q.endswith("::check_pk"):
            hooks[q] = cpk
    hooks["std::sync::Mutex::<T>::new"] = lambda m_, a, c: Term("mutex")

    def leaf(name):
        return Adt(model.MS, "Miniscript", {"node": Term("node", name), "ty": Term("ty"), "ext": Term("ext"), "phantom": (), "name": name})
    n = 0
    shapes = {0: None, 1: [(0, "l0")], 2: [(1, "l0"), (1, "l1")], 3: [(1, "l0"), (2, "l1"), (2, "l2")]}
    for nl, shape in shapes.items():
        names = [x[1] for x in (shape or [])]
        for failing in [None] + names:
            for kb in (False, True):
                bad.clear()
                if failing:
                    bad.add(failing)
                keybad[0] = kb
                del seen[:]
                tree = NONE if shape is None else some(Adt(TT, "TapTree", {"depths_leaves": PyVec([(d, leaf(nm)) for d, nm in shape])}))
                key = "%d-leaves|%s|key-%s" % (nl, "fails:" + failing if failing else "all-pass", "bad" if kb else "ok")
                m = Machine(F, strict=True, hooks=hooks)
                try:
                    r = m.call_callee({"def": trnew, "resolved": trnew, "name": "new", "targs": ["PK"]}, ["K", tree])
                    n += 1
                    want_ok = not failing and not kb
                    chk.obligation(rid, (r.variant == "Ok") == want_ok, key,
                                   "Tr::new with %d leaves (%s, internal key %s) answers %s; leaves checked: %r"
                                   % (nl, "leaf %s fails the top-level checks" % failing if failing else "all leaves pass",
                                      "refused" if kb else "fine", r.variant, seen), F.fns[trnew]["span"])
                except Unsupported as e:
                    chk.fail(rid, "unanalysable:" + key, "unanalysable: %s" % e, where=e.where, kind="unanalysable")
                except Panic as e:
                    chk.fail(rid, key, "panic: %s" % e, F.fns[trnew]["span"])
    chk.floor(rid, "cases", n, 20)


def run(chk):
    F = chk.facts()
    chk.explanation = (
        "Decides: (R12.1) the parameter algebra completely (eq / intersect / entails per field; lattice relations "
        "and per-context values of the rustc-evaluated constants; Bitcoin limits); (R12.2) polarity and "
        "switch<->defect<->error pairing of every validation switch and limit on decision trees extracted "
        "symbolically from validate / validate_non_top_level for each of the 30 fragment kinds, and that every "
        "parameter is enforced; (R12.2k) validate_pk's exact table; (R12.2c) per-context fragment and key tables; "
        "(R12.5) the mixed-time-lock fold as an exact truth table; (R12.3) entry-point coverage and (R12.4) "
        "constructor discipline on the MIR control-flow graphs.")
    chk.trusted = ["spec/limits.py", "factgen THIR/MIR and rustc's constant evaluation", "msverif.interp"]
    chk.assumptions = ["defect predicates (has_repeated_keys, requires_sig, ...) compute what their names say",
                       "typed infallible combinators (Miniscript::pk_k ...) are outside the parser/constructor claim"]
    check_param_algebra(chk, F)
    check_switches(chk, F)
    check_validate_pk(chk, F)
    check_context_tables(chk, F)
    check_timelock_step(chk, F)
    chk.guard("R12.6", "ranges", check_ranges, chk, F)
    from . import entrypoints
    entrypoints.check_entry_points(chk, F)
    entrypoints.check_constructors(chk, F)
    from . import ctors
    chk.guard("R12.7", "typed-constructors", ctors.check_typed_constructors, chk, F, "R12.7")
    # the size switches (max_script_size, the contexts' script size limits) compare Miniscript::script_size / pk_cost,
    # whose only non-structural ingredients are script_num_size and Ctx::pk_len: exact limits need exact sizes (rules
    # shared with C04)
    from . import c04
    from ..report import RuleAlias
    al = RuleAlias(chk, {"R04.2n": "R12.8", "R04.2k": "R12.8"}, "the byte counts the size limits are applied to")
    chk.guard("R12.8", "num-size", c04.check_num_size, al, F)
    chk.guard("R12.8", "pk-len", c04.check_pk_len, al, F)
    chk.guard("R12.9", "key-kinds", check_key_kinds, chk, F)
    chk.guard("R12.10", "bare-standardness", check_other_top_level, chk, F)
    chk.guard("R12.12", "entry-params", check_entry_params, chk, F)
    chk.guard("R12.14", "defect-predicates", check_defect_predicates, chk, F)
    # nesting depth in range: the taproot tree constructor refuses a leaf deeper than 128 (rule shared with C15)
    from . import c15
    chk.guard("R12.15", "taptree-depth", c15.check_combine, chk, F, "R12.15")
    # validate_non_top_level applies the per-node switches while walking the tree with Miniscript::iter / iter_pk
    # (get_nth_child): a child the walk skips is a fragment no switch looks at (rules shared with C20)
    from . import c20
    al2 = RuleAlias(chk, {"R20.3": "R12.13", "R20.4": "R12.13"}, "the walk the per-node validation switches and the duplicate-key "
                    "test ride on")
    chk.guard("R12.13", "visitors", c20.check_visitors, al2, F)
    chk.guard("R12.13", "tree-shape", c20.check_tree_shape, al2, F)
    from . import limits as _limits
    chk.guard("R12.11", "timelock-composition", _limits.check_timelock_composition, chk, F, "R12.11")
    chk.guard("R12.16", "tr-new", check_tr_new, chk, F)
