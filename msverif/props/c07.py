"""C07 -- the lifted policy is exactly the script's spending condition.

Structural clauses (DESIGN.md C07): the lift table is the specification's abstract semantics and is applied to
the right children; lift_check guards the fold; descriptor-level lifts compose it correctly."""

import os
import sys

from .. import model, symx
from ..interp import Machine, Adt, Term, PyVec, PyIter, explore, ok, err, RESULT, Panic
from ..report import Unsupported

sys.path.insert(0, os.path.join(os.path.dirname(__file__), "..", ".."))
from spec import semantics as spec  # noqa: E402

LEVEL = "other"
SEM = "policy::semantic::Policy"


def nf(x):
    """normal form of a lifted semantic policy value"""
    if isinstance(x, Term):
        if x.op == "L":
            return ("L", x.args[0])
        if x.op == "call" and str(x.args[0]).endswith("::normalized"):
            return nf(x.args[1])
        if x.op == "unwrap":
            return nf(x.args[0])
        return ("?", repr(x))
    if isinstance(x, Adt) and x.path == RESULT and x.variant == "Ok":
        return nf(x.fields["0"])
    if isinstance(x, Adt) and x.path == SEM:
        v = x.variant
        if v == "Unsatisfiable":
            return ("false",)
        if v == "Trivial":
            return ("true",)
        if v == "Key":
            k = x.fields["0"]
            return ("key", "K%d" % k.args[0] if isinstance(k, Term) and k.op == "pk" else repr(k))
        if v == "After":
            return ("after",)
        if v == "Older":
            return ("older",)
        if v in ("Sha256", "Hash256", "Ripemd160", "Hash160"):
            return ("hash", v)
        if v == "Thresh":
            th = x.fields["0"]
            if isinstance(th, Adt) and isinstance(th.fields.get("inner"), PyVec):
                return ("thresh", th.fields["k"], [nf(i) for i in th.fields["inner"].items])
    return ("?", repr(x))


def run_lift(F, liftp, rtl, lift_check, variant, n=3, k=2, check_result=None):
    t = model.terminal(F, variant, n=n, k=k)
    ar = model.arity(F, variant, n=n)
    ms = model.miniscript(t)
    hooks = {
        rtl: lambda m, a, c: PyIter([model.iter_item(ms)]),
        lift_check: lambda m, a, c: check_result if check_result is not None else ok(()),
    }

    def unint(p, callee):
        return p.endswith("::normalized") or (callee.get("name") == "normalized")
    m = Machine(F, strict=False, hooks=hooks, uninterpreted=unint)
    # rtl post-order: the rightmost child is visited first, so child 0 is on top of the stack
    m.vec_seed = lambda ty: [Term("L", i) for i in reversed(range(ar))] if "semantic::Policy" in ty else None
    res = explore(m, lambda: m.call_path(liftp, [ms]))
    return res, m


def check_lift_table(chk, F):
    rid = "R07.1"
    chk.rule(rid, "Miniscript::lift maps every fragment to the specification's abstract semantics applied to its "
                  "children in order (and/or/thresh with the right k; wrappers transparent; raw pkh not liftable)")
    try:
        liftp = [i["items"][0]["path"] for i in F.impls if i["trait"] == "policy::Liftable"
                 and i["self_adt"] == model.MS][0]
        rtl = F.fn("rtl_post_order_iter", file="iter/tree.rs")
        lift_check = F.fn("lift_check", file="policy/mod.rs")
    except (KeyError, IndexError) as e:
        chk.fail(rid, "anchors", "missing anchor: %s" % e, kind="unanalysable")
        return None
    chk.saw(liftp)
    where = F.fns[liftp]["span"]
    nvar = 0
    for v in model.variants(F):
        nvar += 1
        ks = (1, 2, 3) if v in ("Thresh", "Multi", "SortedMulti", "MultiA", "SortedMultiA") else (2,)
        for k in ks:
            try:
                res, m = run_lift(F, liftp, rtl, lift_check, v, k=k)
            except Unsupported as e:
                chk.fail(rid, v + "|unanalysable", "unanalysable: %s" % e, where, kind="unanalysable")
                break
            if v == "Thresh":
                want = spec.lift_thresh(k, 3)
            elif "Multi" in v:
                want = spec.lift_multi(k, 3)
            else:
                want = spec.LIFT.get(v)
            if want is None:
                chk.fail(rid, v + "|unknown", "Terminal::%s has no entry in the oracle" % v, where)
                break
            key = v if len(ks) == 1 else "%s|k=%d" % (v, k)
            if len(res) != 1:
                chk.fail(rid, key + "|paths", "lift(%s) has %d symbolic paths" % (v, len(res)), where, kind="unanalysable")
                continue
            r = res[0][1]
            if want == "ERROR":
                chk.obligation(rid, isinstance(r, Adt) and r.variant == "Err", key,
                               "lift(%s) must be an error, got %r" % (v, r), where)
                continue
            got = nf(r)
            good = got == want if v in ("Thresh",) or "Multi" in v else spec.same_up_to_commutativity(got, want)
            # thresh/multi keep child order (k-of-n over the same children in order)
            chk.obligation(rid, good, key, "lift(%s) = %r, specification %r" % (v, got, want), where,
                           detail={"variant": v, "got": repr(got), "want": repr(want)})
            if v in ("AndOr", "OrD", "Thresh"):
                chk.sample({"variant": v, "lift": repr(got)})
    chk.floor(rid, "Terminal variants", nvar, 30)
    # lift_check guards the fold
    rid2 = "R07.2"
    chk.rule(rid2, "lift_check's failure aborts Miniscript::lift; descriptor-level lifts delegate / combine "
                   "as specified (tr = key OR tree, taptree = 1-of-leaves, pkh/wpkh = key)")
    try:
        res, m = run_lift(F, liftp, rtl, lift_check, "AndV", check_result=err(Term("lifterr")))
        good = len(res) == 1 and ((isinstance(res[0][1], Adt) and res[0][1].variant == "Err")
                                  or (isinstance(res[0][1], Term) and res[0][1].op == "from_residual"))
        chk.obligation(rid2, good, "lift_check", "Miniscript::lift continues after lift_check failed: %r" % (res,), where)
    except Unsupported as e:
        chk.fail(rid2, "lift_check|unanalysable", "unanalysable: %s" % e, where, kind="unanalysable")
    return liftp


def lift_impl(F, adt):
    for i in F.impls:
        if i["trait"] == "policy::Liftable" and i["self_adt"] == adt and not i["self_ty"].startswith("std::sync::Arc"):
            return i["items"][0]["path"]
    raise KeyError("Liftable for %s" % adt)


def is_delegation(r, inner):
    return isinstance(r, Term) and r.op == "call" and str(r.args[0]).endswith("::lift") and r.args[1:] == (inner,)


def check_descriptor_lifts(chk, F):
    rid = "R07.2"
    LIFT = "policy::Liftable::lift"

    def unint(p, callee):
        return callee.get("name") in ("lift", "normalized") and (callee.get("trait") == "policy::Liftable"
                                                                   or callee.get("name") == "normalized")
    # Tr
    try:
        p = lift_impl(F, "descriptor::tr::Tr")
        chk.saw(p)
        for tree, want in ((Adt("std::option::Option", "Some", {"0": Term("tree")}), "or"),
                           (Adt("std::option::Option", "None"), "key")):
            tr = Adt("descriptor::tr::Tr", "Tr", {"internal_key": Term("pk", 0), "tree": tree, "spend_info": Term("cache")})
            m = Machine(F, strict=False, uninterpreted=unint)
            res = explore(m, lambda: m.call_path(p, [tr]))
            oks = [r for c, r in res if isinstance(r, Adt) and r.variant == "Ok"]
            if want == "key":
                good = len(oks) == 1 and nf(oks[0]) == ("key", "K0")
                chk.obligation(rid, good, "Tr|no-tree", "tr(K) lifts to %r, expected the key" % ([nf(o) for o in oks],),
                               F.fns[p]["span"])
            else:
                good = False
                if len(oks) == 1:
                    g = nf(oks[0])
                    good = g[0] == "thresh" and g[1] == 1 and len(g[2]) == 2 and ("key", "K0") in g[2] \
                        and any("tree" in repr(x) and "lift" in repr(x) for x in g[2])
                chk.obligation(rid, good, "Tr|tree", "tr(K,T) lifts to %r, expected or(key, lift(T))"
                               % ([nf(o) for o in oks],), F.fns[p]["span"])
    except (KeyError, Unsupported) as e:
        chk.fail(rid, "Tr|unanalysable", "unanalysable: %s" % e, kind="unanalysable")
    # single-key wrappers and delegating wrappers
    for adt, field, kind in (("descriptor::bare::Pkh", "pk", "key"), ("descriptor::segwitv0::Wpkh", "pk", "key"),
                             ("descriptor::bare::Bare", "ms", "delegate"), ("descriptor::segwitv0::Wsh", "ms", "delegate")):
        try:
            p = lift_impl(F, adt)
            chk.saw(p)
            v = Adt(adt, adt.split("::")[-1], {field: Term("pk", 0) if kind == "key" else Term("ms")})
            m = Machine(F, strict=False, uninterpreted=unint)
            res = explore(m, lambda: m.call_path(p, [v]))
            if kind == "key":
                good = len(res) == 1 and nf(res[0][1]) == ("key", "K0")
            else:
                good = len(res) == 1 and is_delegation(res[0][1], Term("ms"))
            chk.obligation(rid, good, adt.split("::")[-1], "%s::lift = %r" % (adt, [r for c, r in res]), F.fns[p]["span"])
        except (KeyError, Unsupported) as e:
            chk.fail(rid, adt + "|unanalysable", "unanalysable: %s" % e, kind="unanalysable")
    # Sh
    try:
        p = lift_impl(F, "descriptor::sh::Sh")
        chk.saw(p)
        for var, inner, want in (("Wsh", Term("wsh"), "delegate"), ("Ms", Term("ms"), "delegate"),
                                 ("Wpkh", Adt("descriptor::segwitv0::Wpkh", "Wpkh", {"pk": Term("pk", 0)}), "key")):
            v = Adt("descriptor::sh::Sh", "Sh", {"inner": Adt("descriptor::sh::ShInner", var, {"0": inner})})
            m = Machine(F, strict=False, uninterpreted=unint)
            res = explore(m, lambda: m.call_path(p, [v]))
            if want == "key":
                good = len(res) == 1 and nf(res[0][1]) == ("key", "K0")
            else:
                good = len(res) == 1 and is_delegation(res[0][1], inner)
            chk.obligation(rid, good, "Sh|" + var, "Sh(%s)::lift = %r" % (var, [r for c, r in res]), F.fns[p]["span"])
    except (KeyError, Unsupported) as e:
        chk.fail(rid, "Sh|unanalysable", "unanalysable: %s" % e, kind="unanalysable")
    # TapTree: 1-of-n over the leaves' lifts; a leaf that does not lift makes the tree's lift fail (no path is hidden)
    try:
        from . import c15, c18
        from ..interp import ok as _ok, err as _err
        from ..builtins import deref
        sys.path.insert(0, os.path.join(os.path.dirname(__file__), "..", "..", "spec"))
        import policy_sem as PS
        p = lift_impl(F, "descriptor::tr::taptree::TapTree")
        chk.saw(p)
        SP = "policy::semantic::Policy"
        for failing in (None, "B", "A", "C"):
            hooks = {}
            mlift = lift_impl(F, "miniscript::private::Miniscript")

            def leaf_lift(mm, a, c, failing=failing):
                nm = deref(a[0]).fields["leafname"]
                return _err(Term("LiftError", nm)) if nm == failing else _ok(Adt(SP, "Key", {"0": nm}))

            def leaf_check(mm, a, c, failing=failing):
                nm = deref(a[0]).fields["leafname"]
                return _err(Term("LiftError", nm)) if nm == failing else _ok(())
            hooks[mlift] = leaf_lift
            for q in F.fns:
                if q.endswith("::lift_check") and "Miniscript" in q:
                    hooks[q] = leaf_check
            m = Machine(F, strict=True, hooks=hooks)
            tree = c15.mk_tree("{A,{B,C}}")
            r = m.call_callee({"def": p, "resolved": p, "name": "lift", "targs": ["PK"]}, [tree])
            key = "TapTree|%s" % ("all leaves lift" if failing is None else "leaf %s does not lift" % failing)
            if failing is None:
                good = isinstance(r, Adt) and r.variant == "Ok" and PS.equivalent(
                    c18.from_lib(r.fields["0"]), ("or", [("key", "A"), ("key", "B"), ("key", "C")]))
                chk.obligation(rid, good, key, "TapTree::lift = %r, expected 1-of-(lift A, lift B, lift C)" % (r,), F.fns[p]["span"])
            else:
                chk.obligation(rid, isinstance(r, Adt) and r.variant == "Err", key, "TapTree::lift = %r although leaf %s does not "
                               "lift: its spending paths are missing from the policy" % (r, failing), F.fns[p]["span"])
    except (KeyError, Unsupported) as e:
        chk.fail(rid, "TapTree|unanalysable", "unanalysable: %s" % e, kind="unanalysable")


def check_concrete_lift(chk, F):
    rid = "R07.3"
    chk.rule(rid, "Concrete::lift: and = n-of-n, or = 1-of-n, thresh keeps k, leaves map to their namesakes; the "
                  "mixed-timelock check precedes it")
    CON = "policy::concrete::Policy"
    try:
        p = lift_impl(F, CON)
        ct = F.fn("check_timelocks", file="policy/concrete.rs")
    except KeyError as e:
        chk.fail(rid, "anchors", "missing anchor %s" % e, kind="unanalysable")
        return
    chk.saw(p)
    where = F.fns[p]["span"]

    def unint(pp, callee):
        return callee.get("name") == "normalized"
    for v in F.adts[CON]["variants"]:
        name = v["name"]
        fields = {}
        for fd in v["fields"]:
            ty = fd["ty"]
            if ty == "Pk":
                fields[fd["name"]] = Term("pk", 0)
            elif ty.startswith("std::vec::Vec<(usize"):
                fields[fd["name"]] = PyVec([(1, Term("sub", 0)), (2, Term("sub", 1)), (3, Term("sub", 2))])
            elif ty.startswith("std::vec::Vec<"):
                # three conjuncts: the parser only builds binary `and`s, the type allows any number
                fields[fd["name"]] = PyVec([Term("sub", 0), Term("sub", 1), Term("sub", 2)])
            elif ty.startswith("primitives::threshold::Threshold"):
                fields[fd["name"]] = model.threshold(2, [Term("sub", 0), Term("sub", 1), Term("sub", 2)])
            else:
                fields[fd["name"]] = Term("payload")
        val = Adt(CON, name, fields)
        hooks = {ct: lambda mm, a, c: ok(())}
        # sub-policies lift to opaque results
        hooks["policy::Liftable::lift"] = None
        m = Machine(F, strict=False, hooks={ct: lambda mm, a, c: ok(())}, uninterpreted=unint)
        orig_call_callee = m.call_callee

        def call_callee(callee, args, where="", _orig=orig_call_callee):
            if callee.get("name") == "lift" and args and isinstance(args[0], Term) and args[0].op == "sub":
                return ok(Term("L", args[0].args[0]))
            return _orig(callee, args, where)
        m.call_callee = call_callee
        try:
            res = explore(m, lambda: m.call_path(p, [val]))
        except Unsupported as e:
            chk.fail(rid, name + "|unanalysable", "unanalysable: %s" % e, where, kind="unanalysable")
            continue
        oks = [r for c, r in res if isinstance(r, Adt) and r.variant == "Ok"]
        if len(oks) != 1:
            chk.fail(rid, name + "|paths", "Concrete::lift(%s): %d Ok paths" % (name, len(oks)), where, kind="unanalysable")
            continue
        g = nf(oks[0])
        want = {
            "Unsatisfiable": ("false",), "Trivial": ("true",), "Key": ("key", "K0"), "After": ("after",),
            "Older": ("older",), "Sha256": ("hash", "Sha256"), "Hash256": ("hash", "Hash256"),
            "Ripemd160": ("hash", "Ripemd160"), "Hash160": ("hash", "Hash160"),
            "And": ("thresh", 3, [("L", 0), ("L", 1), ("L", 2)]),
            "Or": ("thresh", 1, [("L", 0), ("L", 1), ("L", 2)]),
            "Thresh": ("thresh", 2, [("L", 0), ("L", 1), ("L", 2)]),
        }.get(name)
        chk.obligation(rid, want is not None and g == want, name,
                       "Concrete::lift(%s) = %r, specification %r" % (name, g, want), where)
    # the timelock check precedes
    m = Machine(F, strict=False, hooks={ct: lambda mm, a, c: err(Term("mixed"))}, uninterpreted=unint)
    try:
        res = explore(m, lambda: m.call_path(p, [Adt(CON, "Trivial", {})]))
        good = all(not (isinstance(r, Adt) and r.variant == "Ok") for c, r in res)
        chk.obligation(rid, good, "check_timelocks", "Concrete::lift succeeds although check_timelocks failed", where)
    except Unsupported as e:
        chk.fail(rid, "check_timelocks|unanalysable", "unanalysable: %s" % e, where, kind="unanalysable")


# ---- R07.5 lifted policy vs execution ---------------------------------------------------------------------------------

def _lift_work(args):
    """(text, ctx) -> (text, n_cases, [discrepancy]) : parse + lift by evaluation, compare with the reference execution"""
    import itertools
    import sys as _sys
    from .. import facts, textmodel as tm
    from ..interp import Machine, Adt, Panic
    from . import c06, c13, c18, e2e
    tm.sys_path_spec()
    import policy_sem as PS
    X = c13.X
    F = facts.load()
    text, ctx = args
    T_ = c06.Typer(F)
    m = T_.m
    out = []
    try:
        tr = tm.parse_tree(F, m, text)
        ri = m.call_path(T_.root, [tr.fields["0"]])
        st = "miniscript::private::Miniscript<std::string::String, %s>" % c06.CTX[ctx]
        r = m.call_callee({"def": "expression::FromTree::from_tree", "resolved": T_.ft, "name": "from_tree",
                           "trait": "expression::FromTree",
                           "resolved_container": "miniscript::<impl expression::FromTree for miniscript::private::Miniscript<Pk, Ctx>>",
                           "self_ty": st, "targs": [st]}, [ri])
        if not (isinstance(r, Adt) and r.variant == "Ok"):
            return text, 0, [("skip", "not accepted by the library's parser: %s" % repr(r)[:120])]
        lp = lift_impl(F, "miniscript::private::Miniscript")
        lr = m.call_callee({"def": lp, "resolved": lp, "name": "lift", "targs": [], "self_ty": st}, [r.fields["0"]])
        if not (isinstance(lr, Adt) and lr.variant == "Ok"):
            return text, 0, [("skip", "lift refused: %s" % repr(lr)[:120])]
        pol = c18.from_lib(lr.fields["0"])
    except Unsupported as e:
        return text, 0, [("unanalysable", "unanalysable: %s" % e)]
    except Panic as e:
        return text, 0, [("bad", "panic in parse / lift: %s" % e)]
    ast = X.parse(text)
    sc = X.script(ast, ctx)
    keys, hashes = e2e.keys_hashes(ast)
    sats, _ = X.witnesses(ast, ctx, cap=60)
    locks = X.locks(ast)
    lts = sorted(set([0] + [n for k, n in locks if k == "After"]))
    sqs = sorted(set([0] + [n for k, n in locks if k == "Older"]))
    n = 0
    for r_ in range(len(keys) + 1):
        for ks in itertools.combinations(keys, r_):
            for hs in ([set()] if not hashes else [set(c) for q in range(len(hashes) + 1) for c in itertools.combinations(hashes, q)]):
                for lt, sq in itertools.product(lts, sqs):
                    n += 1
                    assets = {"keys": set(ks), "pre": set(hs)}
                    tx = X.Tx(lock_time=lt, sequence=sq)
                    spendable = False
                    for w in sats:
                        if e2e.uses_only(w, assets):
                            acc, _, _ = X.execute(sc, w, tx, ctx)
                            if acc:
                                spendable = True
                                break
                    env = {}
                    for a in PS.atoms(pol):
                        if a[0] == "key":
                            env[a] = a[1] in assets["keys"]
                        elif a[0] == "hash":
                            env[a] = a[2] in assets["pre"]
                        elif a[0] == "older":
                            env[a] = PS.rel_implied(a[1], sq)
                        else:
                            env[a] = PS.abs_implied(a[1], lt) and sq != 0xffffffff
                    says = PS.ev(pol, env)
                    if says != spendable:
                        out.append(("bad", "keys=%s preimages=%s nLockTime=%d nSequence=%d: the lifted policy %r says %s, "
                                           "the script is %s with these assets" % (sorted(ks), sorted(hs), lt, sq, pol, says,
                                                                                 "spendable" if spendable else "not spendable")))
                        if len(out) > 3:
                            return text, n, out
    return text, n, out


def check_lift_vs_execution(chk, F):
    import multiprocessing as mp
    import os as _os
    from . import e2e
    rid = "R07.5"
    chk.rule(rid, "whole scripts (the ~60 scripts of the satisfier family, both contexts): the policy obtained by evaluating "
                  "the library's parser and Miniscript::lift is true for a set of owned keys, known preimages, nLockTime and "
                  "nSequence exactly when some canonical witness built from those assets makes the specification's script "
                  "succeed in the reference execution (every subset of keys x every subset of preimages x every lock "
                  "threshold of the script)")
    fam = list(e2e.FAMILY)
    if chk.tier != "quick":
        from . import decoder, c13
        fam += [x for x in decoder.EXTRA_SCRIPTS if x not in fam]
        fam += [x for x in c13.generated_scripts(F, "segwitv0", limit=80) if x not in fam]
    with mp.Pool(min(16, _os.cpu_count() or 4)) as pool:
        res = pool.map(_lift_work, fam, chunksize=2)
    n_cases = n_scripts = 0
    for text, n, out in res:
        kinds = set(k for k, _ in out)
        if "skip" in kinds:
            continue
        n_scripts += 1
        n_cases += n
        if "unanalysable" in kinds:
            chk.fail(rid, "unanalysable:" + text, out[0][1], kind="unanalysable")
            continue
        bad = [msg for k, msg in out if k == "bad"]
        chk.obligation(rid, not bad, text, "%d case(s); first: %s" % (len(bad), bad[0] if bad else ""), where="src/policy/mod.rs",
                       detail=bad[:4])
    chk.extra["R07.5_cases"] = n_cases
    chk.floor(rid, "scripts lifted", n_scripts, 50)
    chk.floor(rid, "asset / lock cases", n_cases, 300)


# ---- R07.7 the guard in front of every lift ---------------------------------------------------------------------------------------

def check_lift_guard(chk, F):
    import itertools
    from ..interp import NONE
    rid = "R07.7"
    chk.rule(rid, "Miniscript::lift_check (evaluated through within_resource_limits, ScriptContext::check_local_validity and "
                  "has_mixed_timelocks, in every script context) refuses a script exactly when one of the context's four "
                  "resource / validity checks - global consensus, global policy, and the satisfaction-time local consensus "
                  "and local policy limits - fails (BranchExceedResourceLimits) or its time-lock summary records a path that "
                  "mixes units (HeightTimelockCombination): a script some witness cannot exercise is not lifted")
    try:
        lc = [q for q in F.fns if q.endswith("::lift_check") and "Miniscript" in q][0]
    except IndexError:
        chk.fail(rid, "anchor", "Miniscript::lift_check not found", kind="unanalysable")
        return
    chk.saw(lc)
    PARTS = ["check_global_consensus_validity", "check_global_policy_validity", "check_local_consensus_validity",
             "check_local_policy_validity"]
    CTXS = ["Legacy", "Segwitv0", "Tap", "BareCtx"]
    TLI = [a for a in F.adts if a.endswith("extra_props::TimelockInfo")]
    if len(TLI) != 1:
        chk.fail(rid, "anchor|TimelockInfo", "TimelockInfo not found", kind="unanalysable")
        return
    n = 0
    for ctx in CTXS:
        ctxp = "miniscript::context::" + ctx
        failing = set()
        hooks = {}
        for part in PARTS:
            def hook(m_, a, c, part=part):
                return err(Term("limit", part)) if part in failing else ok(())
            hooks["miniscript::context::ScriptContext::" + part] = hook
            hooks["<%s as miniscript::context::ScriptContext>::%s" % (ctxp, part)] = hook
        m = Machine(F, strict=True, hooks=hooks)
        bad = []
        try:
            for fails, mixed in itertools.product([()] + [(p_,) for p_ in PARTS] + [tuple(PARTS)], (False, True)):
                failing.clear()
                failing.update(fails)
                tli = Adt(TLI[0], "TimelockInfo", {"csv_with_height": mixed, "csv_with_time": mixed, "cltv_with_height": False,
                                                   "cltv_with_time": False, "contains_combination": mixed})
                msv = Adt(model.MS, "Miniscript", {"node": Term("node"), "ty": Term("ty"), "phantom": (),
                                                   "ext": Adt("miniscript::types::extra_props::ExtData", "ExtData", {"timelock_info": tli})})
                r = m.call_callee({"def": lc, "resolved": lc, "name": "lift_check", "targs": ["PK", ctxp],
                                   "self_ty": "miniscript::private::Miniscript<PK, %s>" % ctxp}, [msv])
                n += 1
                want = "BranchExceedResourceLimits" if fails else ("HeightTimelockCombination" if mixed else "Ok")
                got = "Ok" if r.variant == "Ok" else repr(r.fields["0"])
                if want not in got:
                    bad.append("failing checks %r, mixed time locks %s: %s, expected %s" % (list(fails), mixed, got, want))
            chk.obligation(rid, not bad, ctx, "%d case(s); first: %s" % (len(bad), bad[0] if bad else ""), where="src/policy/mod.rs", detail=bad[:8])
        except Unsupported as e:
            chk.fail(rid, "unanalysable:" + ctx, "unanalysable: %s" % e, where=e.where, kind="unanalysable")
        except Panic as e:
            chk.fail(rid, ctx, "panic: %s" % e, where="src/policy/mod.rs")
    chk.floor(rid, "cases", n, 48)


def check_local_validity_table(chk, F, rid):
    """ScriptContext::check_local_validity = all four primitive checks, per context"""
    import itertools
    chk.rule(rid, "ScriptContext::check_local_validity - the filter the policy compiler applies to every candidate "
                  "(insert_elem) and the test behind within_resource_limits - fails exactly when one of the context's four "
                  "checks (global consensus, global policy, local consensus, local policy) fails, in every script context")
    PARTS = ["check_global_consensus_validity", "check_global_policy_validity", "check_local_consensus_validity",
             "check_local_policy_validity"]
    d = "miniscript::context::ScriptContext::check_local_validity"
    n = 0
    for ctx in ("Legacy", "Segwitv0", "Tap", "BareCtx"):
        ctxp = "miniscript::context::" + ctx
        own = "<%s as miniscript::context::ScriptContext>::check_local_validity" % ctxp
        p = own if own in F.bodies else d
        if p not in F.bodies:
            chk.fail(rid, "anchor|" + ctx, "check_local_validity of %s not found" % ctx, kind="unanalysable")
            continue
        chk.saw(p)
        failing = set()
        hooks = {}
        for part in PARTS:
            def hook(m_, a, c, part=part):
                return err(Term("limit", part)) if part in failing else ok(())
            hooks["miniscript::context::ScriptContext::" + part] = hook
            hooks["<%s as miniscript::context::ScriptContext>::%s" % (ctxp, part)] = hook
        m = Machine(F, strict=True, hooks=hooks)
        bad = []
        try:
            for fails in [()] + [(p_,) for p_ in PARTS] + [tuple(PARTS)]:
                failing.clear()
                failing.update(fails)
                r = m.call_callee({"def": p, "resolved": p, "name": "check_local_validity", "targs": [ctxp, "PK"], "self_ty": ctxp,
                                   "default_for": ctxp if p == d else None}, [Term("ms")])
                n += 1
                if (r.variant == "Ok") != (not fails):
                    bad.append("failing checks %r: %s" % (list(fails), repr(r)[:80]))
            chk.obligation(rid, not bad, ctx, "%d case(s); first: %s" % (len(bad), bad[0] if bad else ""), F.fns[p]["span"], detail=bad)
        except Unsupported as e:
            chk.fail(rid, "unanalysable:" + ctx, "unanalysable: %s" % e, where=e.where, kind="unanalysable")
        except Panic as e:
            chk.fail(rid, ctx, "panic: %s" % e, F.fns[p]["span"])
    chk.floor(rid, "cases", n, 24)


def run(chk):
    F = chk.facts()
    chk.explanation = (
        "Decides that the lift table is the specification's abstract semantics evaluated on the right children: "
        "each of the 30 arms of Miniscript::lift is extracted symbolically (children as opaque lifted policies in "
        "pop order, knowing the iteration direction) and compared with the oracle up to commutativity; lift_check "
        "failure aborts the fold; tr/taptree/sh/wsh/pkh/wpkh/bare lifts and Concrete::lift are extracted the same "
        "way; (R07.4) `normalized()`, applied last by every lift, keeps the truth table on a bounded family (shared "
        "with C18).")
    chk.trusted = ["spec/semantics.py", "factgen THIR; msverif.interp"]
    chk.assumptions = ["equivalence over all worlds beyond `same formula as the specification` is not decided",
                       "Semantic::normalized preserves meaning (C18, only partially decided)"]
    check_lift_table(chk, F)
    check_descriptor_lifts(chk, F)
    check_concrete_lift(chk, F)
    # every lift ends with `.normalized()`: it must not change the meaning (rule shared with C18)
    from . import c18
    chk.guard("R07.4", "normalized", c18.check_normalized_small, chk, F, "R07.4")
    chk.guard("R07.5", "lift-vs-execution", check_lift_vs_execution, chk, F)
    # the lifts fold over TreeLike::post_order_iter (and normalized over rtl_post_order_iter), which the rules above
    # evaluate through the analyser's model: the model is the source's behaviour (rule shared with C20)
    from . import c20
    from ..report import RuleAlias
    chk.guard("R07.7", "lift-guard", check_lift_guard, chk, F)
    # ... and the summary that guard reads is the summary of the script's paths (shared with C12)
    from . import limits as _limits
    chk.guard("R07.8", "timelock-composition", _limits.check_timelock_composition, chk, F, "R07.8")
    chk.guard("R07.6", "tree-iterators", c20.check_tree_iterators, RuleAlias(chk, {"R20.10": "R07.6"}, "the traversal the "
              "lifts fold over"), F)
