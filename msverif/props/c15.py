"""C15 -- Taproot outputs commit to exactly the described script tree.

The design round listed this property as not applicable (hash arithmetic).  With the evaluator of the build round the
*structure* of the commitment is decidable when the hash functions are treated as a free algebra: a leaf hash is an
opaque constructor of the leaf script, a branch hash an opaque commutative constructor of its two children
(BIP-341 sorts them), the tweak an opaque constructor of (internal key, root).  Collisions of real hashes are outside
any static argument; everything else the property states is about which values are combined with which.

Decided, by evaluating TrSpendInfo::nodes_from_tap_tree / from_tr / leaves (TrSpendInfoIter::next, BitStack128) from
their typed syntax trees on every tree shape up to N leaves and on combs reaching depth 127 / 128 with one, two and
three bottom pairs on either side:

R15.1  the Merkle root handed to the tweak is BIP-341's root of the described tree; no tree => no root
R15.2  every leaf's control block carries the internal key / parity of the spend info and a Merkle branch that,
       folded from the leaf hash upwards, gives that root (the BIP-341 verification), and whose length is the
       leaf's depth
R15.3  leaves are yielded in the order of the tree with their own scripts
R15.4  BitStack128 is a LIFO of bits up to 128 entries
R15.5  parsing / printing keep leaves, order and depths (TapTreeBuilder and TapTree Display; rule shared with C10)
R15.6  TapTree::translate_pk keeps depths and order
R15.7  TapTree::combine puts both subtrees one level deeper, in order, and fails exactly beyond depth 128
R15.8  TrSpendInfo::to_tap_tree passes exactly the leaves (depth, script, version, order) on; None only without a tree"""

import itertools
import os
import sys

from ..interp import Machine, Adt, Term, PyVec, Panic, ok, err, some, NONE
from ..report import Unsupported
from .. import model
from . import c10

LEVEL = "other"
TAPTREE = "descriptor::tr::taptree::TapTree"
TR = "descriptor::tr::Tr"
MS = model.MS


def parse_braces(text):
    """brace expression -> nested tuple tree: leaf name | (left, right)"""
    pos = [0]

    def node():
        if text[pos[0]] == "{":
            pos[0] += 1
            l = node()
            assert text[pos[0]] == ","
            pos[0] += 1
            r = node()
            assert text[pos[0]] == "}"
            pos[0] += 1
            return (l, r)
        j = pos[0]
        while j < len(text) and text[j] not in ",}":
            j += 1
        name = text[pos[0]:j]
        pos[0] = j
        return name
    t = node()
    assert pos[0] == len(text)
    return t


def leaf_hash(name):
    return ("leafhash", name)


def branch_hash(a, b):
    x, y = sorted([a, b], key=repr)
    return ("branch", x, y)


def spec_tree(t):
    """-> (root hash, [(leaf name, depth, [sibling hashes bottom-up])]) per BIP-341"""
    if isinstance(t, str):
        return leaf_hash(t), [(t, 0, [])]
    lh, ll = spec_tree(t[0])
    rh, rl = spec_tree(t[1])
    out = [(n, d + 1, path + [rh]) for (n, d, path) in ll] + [(n, d + 1, path + [lh]) for (n, d, path) in rl]
    return branch_hash(lh, rh), out


def fold(leafh, path):
    h = leafh
    for s in path:
        h = branch_hash(h, s)
    return h


def mk_tree(text):
    events, depths = c10.brace_events(text)
    items = []
    for d, name in depths:
        ms = Adt(MS, "Miniscript", {"node": Term("leafnode", name), "ty": Term("ty"), "ext": Term("ext"), "phantom": (),
                                    "leafname": name})
        items.append((d, ms))
    return Adt(TAPTREE, "TapTree", {"depths_leaves": PyVec(items)})


def machine(F):
    from ..builtins import deref
    m = Machine(F, strict=True, max_depth=60)
    m.max_steps = 20_000_000
    h = m.hooks
    for p in F.fns:
        if p.endswith("::encode") and "Miniscript" in p:
            h[p] = lambda m_, a, c: ("script", deref(a[0]).fields["leafname"])
    h["bitcoin::TapLeafHash::from_script"] = lambda m_, a, c: leaf_hash(deref(a[0])[1])
    h["bitcoin::taproot::TapLeafHash::from_script"] = h["bitcoin::TapLeafHash::from_script"]
    h["bitcoin::TapNodeHash::from_node_hashes"] = lambda m_, a, c: branch_hash(deref(a[0]), deref(a[1]))
    h["bitcoin::taproot::TapNodeHash::from_node_hashes"] = h["bitcoin::TapNodeHash::from_node_hashes"]
    h["<bitcoin::TapNodeHash as std::convert::From<bitcoin::TapLeafHash>>::from"] = lambda m_, a, c: deref(a[0])
    h["bitcoin::taproot::TaprootMerkleBranch::len"] = lambda m_, a, c: len(deref(a[0]).items)
    h["bitcoin::secp256k1::Secp256k1::<bitcoin::secp256k1::VerifyOnly>::verification_only"] = lambda m_, a, c: Term("secp")
    h["bitcoin::secp256k1::context::alloc_only::<impl bitcoin::secp256k1::Secp256k1<bitcoin::secp256k1::VerifyOnly>>::verification_only"] = lambda m_, a, c: Term("secp")
    h["bitcoin::key::TapTweak::tap_tweak"] = lambda m_, a, c: (("tweaked", deref(a[0]), deref(a[2])), Term("parity"))
    h["ToPublicKey::to_x_only_pubkey"] = lambda m_, a, c: ("xonly", deref(a[0]))
    m.opaque_from = True
    return m


def _try_from_hook(m_, a, c):
    from ..builtins import deref
    v = deref(a[0])
    if isinstance(v, PyVec):
        return ok(v) if len(v.items) <= 128 else err(Term("TooLong"))
    return None


TEXTS_DEEP = None


def texts(tier):
    P2, P4, P6 = "{A,B}", "{{A,B},{C,D}}", "{{A,B},{{C,D},E}}"
    comb = c10.comb
    out = c10.brace_shapes(5 if tier == "quick" else 7)
    out += [comb(126, P2), comb(127, P2), comb(126, P4), comb(126, P2, "left"), comb(127, P2, "left"),
            comb(126, P4, "left"), comb(125, P6), comb(125, "{%s,%s}" % (P4, P4)),
            "{%s,%s}" % (comb(126, P2), comb(126, "{C,E}", "left")),
            "{%s,%s}" % (comb(125, P4), comb(125, "{{E,F},{G,H}}", "left")),
            comb(100, "{%s,%s}" % (comb(26, P2), comb(25, P4, "left")))]
    return out



def check_combine(chk, F, rid="R15.7"):
    # R15.7 TapTree::combine
    chk.rule(rid, "TapTree::combine(l, r) is the tree with l's leaves then r's leaves, each one level deeper, and fails "
                      "exactly when a leaf would end deeper than 128 (BIP-341's control block limit); depth lists include "
                      "the boundary depths 126, 127, 128")
    cb = [p_ for p_ in F.fns if p_.endswith("TapTree::<Pk>::combine")]
    if len(cb) != 1:
        chk.fail(rid, "anchor", "TapTree::combine not found", kind="unanalysable")
    else:
        chk.saw(cb[0])
        m4 = Machine(F, strict=True)

        def tree_of(depths, tag):
            return Adt(TAPTREE, "TapTree", {"depths_leaves": PyVec([
                (d, Adt(MS, "Miniscript", {"node": Term("leafnode", "%s%d" % (tag, i)), "ty": Term("ty"), "ext": Term("ext"),
                                           "phantom": (), "leafname": "%s%d" % (tag, i)})) for i, d in enumerate(depths)])})
        sides = [[0], [1, 1], [1, 2, 2], [2, 2, 1], [126, 126], [127, 127], [1, 127, 127], [128, 128], [1, 2, 128, 128],
                 [127, 128, 128], list(range(1, 128)) + [127], list(range(1, 129)) + [128]]
        n7 = 0
        for ld, rd in itertools.product(sides, sides):
            key = "%s+%s" % ("/".join(map(str, ld[:3] + ld[-1:])) + ":%d" % len(ld), "/".join(map(str, rd[:3] + rd[-1:])) + ":%d" % len(rd))
            n7 += 1
            try:
                r = m4.call_callee({"def": cb[0], "resolved": cb[0], "name": "combine", "targs": ["PK"]},
                                   [tree_of(ld, "l"), tree_of(rd, "r")])
                want = None if max(ld + rd) + 1 > 128 else \
                    [(d + 1, "l%d" % i) for i, d in enumerate(ld)] + [(d + 1, "r%d" % i) for i, d in enumerate(rd)]
                got = [(d, x.fields["leafname"]) for d, x in r.fields["0"].fields["depths_leaves"].items] \
                    if r.variant == "Ok" else None
                chk.obligation(rid, got == want, key, "combine gives %s, expected %s" % (
                    "an error" if got is None else "leaves %r.." % (got[:3],),
                    "an error (a leaf deeper than 128)" if want is None else "leaves %r.." % (want[:3],)),
                    where="src/descriptor/tr/taptree.rs")
            except Panic as e:
                chk.fail(rid, key, "combine panics: %s" % e, where="src/descriptor/tr/taptree.rs")
            except Unsupported as e:
                chk.fail(rid, "unanalysable:" + key, "unanalysable: %s" % e, where=e.where, kind="unanalysable")
                break
        chk.floor(rid, "depth-list pairs", n7, 140)


def run(chk):
    F = chk.facts()
    chk.explanation = __doc__
    chk.trusted = ["hash functions as a free algebra (leaf hash of the script; commutative branch hash; tweak of key and "
                   "root): collision freedom and the byte-level tagged hashes are rust-bitcoin's", "rustc THIR; evaluator"]
    chk.rule("R15.1", "the root passed to tap_tweak (and reported by merkle_root) is the BIP-341 Merkle root of the tree")
    chk.rule("R15.2", "each leaf's control block folds, from its leaf hash along its branch, to the root; branch length = depth; "
                      "internal key and parity are those of the spend info")
    chk.rule("R15.3", "spend-info leaves come in tree order with their own script and leaf hash")
    nft = F.fn("nodes_from_tap_tree", file="tr/spend_info.rs")
    from_tr = F.fn("from_tr", file="tr/spend_info.rs")
    leaves = F.fn("leaves", file="tr/spend_info.rs", container="TrSpendInfo")
    nxt = [it["path"] for i in F.impls if (i["self_adt"] or "").endswith("spend_info::TrSpendInfoIter") and i["trait"] == "std::iter::Iterator"
           for it in i["items"] if it["name"] == "next"][0]
    chk.saw(nft, from_tr, leaves, nxt)
    m = machine(F)
    from .. import builtins
    orig = builtins.TRAIT_TABLE.get(("std::convert::TryFrom", "try_from"))

    def tf(m_, a, c):
        st = " ".join([c.get("self_ty") or ""] + (c.get("targs") or []))
        if "TaprootMerkleBranch" in st:
            r = _try_from_hook(m_, a, c)
            if r is not None:
                return r
        return orig(m_, a, c) if orig else builtins.NOT_HANDLED
    builtins.TRAIT_TABLE[("std::convert::TryFrom", "try_from")] = tf
    n_ok = 0
    try:
        for text in texts(chk.tier):
            key = text if len(text) < 60 else "deep:%d:%s" % (len(text), text[-28:])
            tree = parse_braces(text)
            root, want = spec_tree(tree)
            try:
                tr = Adt(TR, "Tr", {"internal_key": "IK", "tree": some(mk_tree(text)), "spend_info": Term("cache")})
                si = m.call_callee({"def": from_tr, "resolved": from_tr, "name": "from_tr", "targs": ["PK"]}, [tr])
                got_root = si.fields["nodes"].items[0].fields["sibling_hash"]
                ok1 = repr(got_root) == repr(root) and repr(si.fields["output_key"]) == repr(("tweaked", ("xonly", "IK"), some(root)))
                chk.obligation("R15.1", ok1, key, "root / tweak input differs from BIP-341: output key %s"
                               % repr(si.fields["output_key"])[:200], where="src/descriptor/tr/spend_info.rs")
                it = m.call_path(leaves, [si])
                got = []
                for _ in range(len(want) + 2):
                    r = m.call_path(nxt, [it])
                    if r.variant == "None":
                        break
                    got.append(r.fields["0"])
                bad2, bad3 = [], []
                if len(got) != len(want):
                    bad3.append("%d leaves yielded, the tree has %d" % (len(got), len(want)))
                for item, (name, depth, path) in zip(got, want):
                    cb = item.fields["control_block"]
                    branch = cb.fields["merkle_branch"].items
                    lh = item.fields["leaf_hash"]
                    if repr(lh) != repr(leaf_hash(name)) or repr(item.fields["script"]) != repr(("script", name)):
                        bad3.append("leaf %s is yielded with script %r / leaf hash %r" % (name, item.fields["script"], lh))
                        continue
                    if len(branch) != depth:
                        bad2.append("leaf %s at depth %d has a branch of length %d" % (name, depth, len(branch)))
                    elif repr(fold(lh, branch)) != repr(root):
                        bad2.append("leaf %s: its branch does not fold to the root" % name)
                    if repr(cb.fields["internal_key"]) != repr(("xonly", "IK")) or \
                            repr(cb.fields["output_key_parity"]) != repr(si.fields["output_key_parity"]):
                        bad2.append("leaf %s: control block key / parity are not the spend info's" % name)
                chk.obligation("R15.2", not bad2, key, "; ".join(bad2[:3]), where="src/descriptor/tr/spend_info.rs")
                chk.obligation("R15.3", not bad3, key, "; ".join(bad3[:3]), where="src/descriptor/tr/spend_info.rs")
                if ok1 and not bad2 and not bad3:
                    n_ok += 1
            except Unsupported as e:
                chk.fail("R15.1", "unanalysable:" + key, "unanalysable: %s" % e, where=e.where, kind="unanalysable")
            except Panic as e:
                chk.fail("R15.2", key, "panic while building / iterating the spend info: %s" % e,
                         where="src/descriptor/tr/spend_info.rs")
        # no tree => no root
        tr = Adt(TR, "Tr", {"internal_key": "IK", "tree": NONE, "spend_info": Term("cache")})
        si = m.call_callee({"def": from_tr, "resolved": from_tr, "name": "from_tr", "targs": ["PK"]}, [tr])
        chk.obligation("R15.1", repr(si.fields["output_key"]) == repr(("tweaked", ("xonly", "IK"), NONE)), "key-only",
                       "key-only output key is %r" % (si.fields["output_key"],))
    finally:
        if orig:
            builtins.TRAIT_TABLE[("std::convert::TryFrom", "try_from")] = orig
    chk.floor("R15.1", "tree shapes", n_ok, 30)
    # R15.5 / R15.6: the other places the tree passes through
    from ..report import RuleAlias
    chk.guard("R15.5", "builder", c10.check_taptree_builder,
              RuleAlias(chk, {"R10.6": "R15.5"}, "parsing / printing keep leaves, order and depths (rule shared with C10)"), F)
    chk.rule("R15.6", "TapTree::translate_pk keeps every leaf's depth and the order of leaves, translating each leaf once")
    tp = [p_ for p_ in F.fns if p_.endswith("TapTree::<Pk>::translate_pk")]
    mtp = [p_ for p_ in F.fns if p_.endswith("::translate_pk") and "Miniscript<Pk, Ctx>" in p_]
    if len(tp) != 1 or not mtp:
        chk.fail("R15.6", "anchor", "TapTree::translate_pk / Miniscript::translate_pk not found", kind="unanalysable")
    else:
        from ..builtins import deref
        hooks = {}
        for q in mtp:
            hooks[q] = lambda m_, a, c: ok(Adt(MS, "Miniscript", {"node": Term("translated", deref(a[0]).fields["leafname"]),
                                                                 "ty": Term("ty"), "ext": Term("ext"), "phantom": (),
                                                                 "leafname": "T:" + deref(a[0]).fields["leafname"]}))
        m3 = Machine(F, strict=True, hooks=hooks)
        for text in texts("quick")[:40] + texts("quick")[-3:]:
            key = text if len(text) < 60 else "deep:%d:%s" % (len(text), text[-28:])
            try:
                tree = mk_tree(text)
                before = [(d, x.fields["leafname"]) for d, x in tree.fields["depths_leaves"].items]
                r = m3.call_callee({"def": tp[0], "resolved": tp[0], "name": "translate_pk", "targs": ["PK", "T"]},
                                   [tree, Term("translator")])
                after = [(d, x.fields["leafname"]) for d, x in r.fields["0"].fields["depths_leaves"].items] \
                    if r.variant == "Ok" else None
                chk.obligation("R15.6", after == [(d, "T:" + n) for d, n in before], key,
                               "translated tree has leaves %r" % (after[:4] if after else r,), where="src/descriptor/tr/taptree.rs")
            except Unsupported as e:
                chk.fail("R15.6", "unanalysable:" + key, "unanalysable: %s" % e, where=e.where, kind="unanalysable")
                break
    check_combine(chk, F, "R15.7")
    # R15.8 TrSpendInfo::to_tap_tree (what a PSBT output carries)
    chk.rule("R15.8", "TrSpendInfo::to_tap_tree hands rust-bitcoin's builder exactly the leaves of the tree - each with its own "
                      "depth, script and the tapscript leaf version, in tree order - and is None exactly for a key-only output")
    ttt = [p_ for p_ in F.fns if p_.endswith("TrSpendInfo::<Pk>::to_tap_tree")]
    if len(ttt) != 1:
        chk.fail("R15.8", "anchor", "TrSpendInfo::to_tap_tree not found", kind="unanalysable")
    else:
        chk.saw(ttt[0])
        from ..builtins import deref
        m5 = machine(F)
        h5 = m5.hooks
        h5["bitcoin::taproot::TaprootBuilder::new"] = lambda m_, a, c: PyVec([])
        h5["bitcoin::taproot::TaprootBuilder::add_leaf_with_ver"] = lambda m_, a, c: ok(PyVec(list(deref(a[0]).items) + [(deref(a[1]), deref(a[2]), repr(deref(a[3])))]))
        h5["bitcoin::taproot::TaprootBuilder::add_leaf"] = lambda m_, a, c: ok(PyVec(list(deref(a[0]).items) + [(deref(a[1]), deref(a[2]), "LeafVersion::TapScript")]))
        for nm in ("<bitcoin::taproot::TapTree as std::convert::TryFrom<bitcoin::taproot::TaprootBuilder>>::try_from",
                   "bitcoin::taproot::TapTree::try_from"):
            h5[nm] = lambda m_, a, c: ok(("taptree", list(deref(a[0]).items)))
        h5["<bitcoin::ScriptBuf as std::convert::From<&bitcoin::Script>>::from"] = lambda m_, a, c: deref(a[0])
        h5["bitcoin::script::<impl std::convert::From<&'a bitcoin::Script> for bitcoin::ScriptBuf>::from"] = lambda m_, a, c: deref(a[0])
        from .. import builtins as B5
        orig5 = B5.TRAIT_TABLE.get(("std::convert::TryFrom", "try_from"))

        def tf5(m_, a, c):
            st = " ".join([c.get("self_ty") or ""] + (c.get("targs") or []))
            if "TaprootMerkleBranch" in st:
                r_ = _try_from_hook(m_, a, c)
                if r_ is not None:
                    return r_
            if "TapTree" in st and isinstance(deref(a[0]), PyVec):
                return ok(("taptree", list(deref(a[0]).items)))
            return orig5(m_, a, c) if orig5 else B5.NOT_HANDLED
        B5.TRAIT_TABLE[("std::convert::TryFrom", "try_from")] = tf5
        from_tr5 = F.fn("from_tr", file="tr/spend_info.rs")
        try:
            n8 = 0
            for text in [None, "A", "{A,B}", "{A,{B,C}}", "{{A,B},C}", "{{A,B},{C,D}}", "{A,{B,{C,{D,E}}}}"]:
                key = "to_tap_tree|%s" % text
                n8 += 1
                try:
                    tr = Adt(TR, "Tr", {"internal_key": "IK", "tree": some(mk_tree(text)) if text else NONE, "spend_info": Term("cache")})
                    si = m5.call_callee({"def": from_tr5, "resolved": from_tr5, "name": "from_tr", "targs": ["PK"]}, [tr])
                    r = m5.call_callee({"def": ttt[0], "resolved": ttt[0], "name": "to_tap_tree", "targs": ["PK"]}, [si])
                    if text is None:
                        chk.obligation("R15.8", r.variant == "None", key, "a key-only output yields %r" % (r,), where="src/descriptor/tr/spend_info.rs")
                        continue
                    _root, leaves_ = spec_tree(parse_braces(text))
                    want = [(d, ("script", nm), "LeafVersion::TapScript") for nm, d, _p in leaves_]
                    got = deref(r.fields["0"])[1] if r.variant == "Some" else None
                    good = got is not None and [(g[0], g[1], "LeafVersion::TapScript" if "TapScript" in g[2] else g[2]) for g in got] == want
                    chk.obligation("R15.8", good, key, "to_tap_tree gives %r, the tree has the leaves %r" % (got, want),
                                   where="src/descriptor/tr/spend_info.rs")
                except Unsupported as e:
                    chk.fail("R15.8", "unanalysable:" + key, "unanalysable: %s" % e, where=e.where, kind="unanalysable")
                    break
                except Panic as e:
                    chk.fail("R15.8", key, "panic: %s" % e, where="src/descriptor/tr/spend_info.rs")
        finally:
            B5.TRAIT_TABLE[("std::convert::TryFrom", "try_from")] = orig5
    # R15.9 the tree's own leaf iterator (TapTree::leaves, Tr::leaves, Descriptor::tap_tree_iter), from both ends
    chk.rule("R15.9", "TapTree::leaves yields every leaf once with its own depth: next from the left in tree order, next_back from "
                      "the right, in any interleaving of the two, None after the last one; len is the number of leaves left")
    try:
        lv = F.fn("leaves", file="tr/taptree.rs", container="TapTree")
        imps9 = {(i["trait"], it["name"]): it["path"] for i in F.impls if (i.get("self_adt") or "").endswith("taptree::TapTreeIter")
                 for it in i["items"]}
        nx9, nb9 = imps9[("std::iter::Iterator", "next")], imps9[("std::iter::DoubleEndedIterator", "next_back")]
        ln9 = imps9[("std::iter::ExactSizeIterator", "len")]
    except KeyError as e:
        chk.fail("R15.9", "anchor", "TapTree::leaves / TapTreeIter impls not found: %s" % e, kind="unanalysable")
    else:
        import itertools as it9
        from ..builtins import deref
        chk.saw(lv, nx9, nb9, ln9)
        m9 = Machine(F, strict=True)
        n9 = 0
        for text in ["A", "{A,B}", "{A,{B,C}}", "{{A,B},C}", "{{A,B},{C,D}}", "{A,{B,{C,D}}}"]:
            tree = mk_tree(text)
            leaves9 = [(d, x.fields["leafname"]) for d, x in tree.fields["depths_leaves"].items]
            for sched in it9.product("FB", repeat=len(leaves9) + 1):
                key = "%s|%s" % (text, "".join(sched))
                n9 += 1
                try:
                    itv = m9.call_path(lv, [tree])
                    rest = list(leaves9)
                    bad = []
                    for step in sched:
                        ln = m9.call_path(ln9, [itv])
                        if ln != len(rest):
                            bad.append("len %r with %d leaves left" % (ln, len(rest)))
                        r = m9.call_path(nx9 if step == "F" else nb9, [itv])
                        want = (rest.pop(0) if step == "F" else rest.pop()) if rest else None
                        got = None
                        if r.variant == "Some":
                            x = deref(r.fields["0"])
                            got = (x.fields["depth"], deref(x.fields["node"]).fields["leafname"])
                        if got != want:
                            bad.append("%s gives %r, expected %r" % ("next" if step == "F" else "next_back", got, want))
                    if [(d, x.fields["leafname"]) for d, x in tree.fields["depths_leaves"].items] != leaves9:
                        bad.append("the tree itself was changed by iterating")
                    chk.obligation("R15.9", not bad, key, "; ".join(bad[:2]), where="src/descriptor/tr/taptree.rs")
                except Unsupported as e:
                    chk.fail("R15.9", "unanalysable:" + key, "unanalysable: %s" % e, where=e.where, kind="unanalysable")
                    break
                except Panic as e:
                    chk.fail("R15.9", key, "panic: %s" % e, where="src/descriptor/tr/taptree.rs")
        chk.floor("R15.9", "schedules", n9, 100)
    # R15.10 tree texts: what the parser accepts is a complete binary tree holding every leaf of the text
    chk.rule("R15.10", "taproot descriptor texts whose tree part is not a binary tree ({A}, {A,B,C}, {{A,B,C},D}, {}, extra "
                       "arguments ...) are refused, and for every text the parser accepts the recorded (depth, leaf) list holds "
                       "each leaf of the text once, in order, and is a complete binary tree (the depths satisfy Kraft's equality): "
                       "nothing the text shows is left outside the commitment")
    try:
        from fractions import Fraction
        from ..builtins import deref
        m10, _p10 = c10.desc_machine(F)
        m10.max_depth = 140
        trees = ["pk(A)", "{pk(A),pk(B)}", "{pk(A),{pk(B),pk(C)}}", "{{pk(A),pk(B)},{pk(C),pk(D)}}",
                 "{pk(A)}", "{pk(A),pk(B),pk(C)}", "{pk(A),pk(B),pk(C),pk(D)}", "{{pk(A),pk(B),pk(C)},pk(D)}", "{pk(A),{pk(B)}}",
                 "{pk(A),{pk(B),pk(C),pk(D)}}", "{}", "{pk(A),}", "{,pk(A)}", "{{pk(A),pk(B)}}", "{pk(A),pk(B)},pk(C)",
                 "pk(A),pk(B)", "{pk(A),pk(B)}{pk(C),pk(D)}"]
        n10 = 0
        import re as _re
        for tt in trees:
            text = "tr(K,%s)" % tt
            r = c10.desc_from_str(F, m10, text)
            n10 += 1
            names = _re.findall(r"pk\(([A-Z])\)", tt)
            binary = tt in trees[:4]
            if r.variant != "Ok":
                chk.obligation("R15.10", not binary, text, "a binary tree text is refused: %s" % repr(r)[:120], where="src/descriptor/tr/mod.rs")
                continue
            tr_ = deref(deref(r.fields["0"]).fields["0"])
            tree = tr_.fields["tree"]
            dl = [] if tree.variant == "None" else [(d, deref(x)) for d, x in deref(tree.fields["0"]).fields["depths_leaves"].items]
            got_names = [_re.findall(r"'([A-Z])'", repr(x.fields["node"]))[0] if _re.findall(r"'([A-Z])'", repr(x.fields["node"])) else "?" for _d, x in dl]
            kraft = sum(Fraction(1, 2 ** d) for d, _x in dl)
            good = got_names == names and kraft == 1
            chk.obligation("R15.10", good, text, "accepted with leaves %r at depths %r (text has %r; sum of 2^-depth = %s)"
                           % (got_names, [d for d, _x in dl], names, kraft), where="src/descriptor/tr/mod.rs")
        chk.floor("R15.10", "texts", n10, 15)
    except Unsupported as e:
        chk.fail("R15.10", "unanalysable", "unanalysable: %s" % e, where=e.where, kind="unanalysable")
    except Panic as e:
        chk.fail("R15.10", "panic", "panic: %s" % e, where="src/descriptor/tr/mod.rs")
    # R15.4 BitStack128
    chk.rule("R15.4", "BitStack128: pop returns pushed bits in reverse order, None when empty, for sequences up to 128 bits")
    bs = [a for a in F.adts if a.endswith("BitStack128")]
    push = F.fn("push", file="tr/spend_info.rs", container="BitStack128")
    pop = F.fn("pop", file="tr/spend_info.rs", container="BitStack128")
    m2 = Machine(F, strict=True)
    for seq in ([], [True], [False], [True, False, True], [False] * 128, [True] * 128, [i % 3 == 0 for i in range(128)],
                [i % 2 == 0 for i in range(127)]):
        try:
            from ..builtins import _default
            st = m2.call_callee({"def": "std::default::Default::default", "trait": "std::default::Default", "name": "default",
                                 "self_ty": bs[0], "targs": [bs[0]]}, [])
            for b in seq:
                m2.call_path(push, [st, b])
            out = []
            for _ in range(len(seq) + 1):
                r = m2.call_path(pop, [st])
                out.append(None if r.variant == "None" else r.fields["0"])
            chk.obligation("R15.4", out == list(reversed(seq)) + [None], "len=%d" % len(seq),
                           "BitStack128 returns %r for pushes %r" % (out[:8], seq[:8]), where="src/descriptor/tr/spend_info.rs")
        except Unsupported as e:
            chk.fail("R15.4", "unanalysable:len=%d" % len(seq), "unanalysable: %s" % e, where=e.where, kind="unanalysable")
        except Panic as e:
            chk.fail("R15.4", "len=%d" % len(seq), "BitStack128 panics: %s" % e, where="src/descriptor/tr/spend_info.rs")
