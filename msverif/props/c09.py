"""C09 -- static size and resource figures are true upper bounds.

Structural clauses (DESIGN.md C09): each per-fragment accounting rule of ExtData dominates the size image of
the satisfaction template the satisfier uses; pk_cost/static_ops/has_free_verify agree with the encoder's
template; limits are compared with the right figure; constants are Bitcoin's; plan/placeholder sizes agree
with what is produced."""

import itertools
import os
import sys

from .. import model, satmodel, scriptmodel, symx, linform, maxplus
from ..interp import Machine, Adt, Term, PyVec, Panic, explore, some, NONE, OPTION
from ..report import Unsupported
from ..builtins import deref
from . import c04

sys.path.insert(0, os.path.join(os.path.dirname(__file__), "..", ".."))
from spec import satisfaction as sat_spec  # noqa: E402
from spec import script as script_spec  # noqa: E402
from spec import types as type_spec  # noqa: E402

LEVEL = "other"
EXT = "miniscript::types::extra_props::ExtData"
SATD = "miniscript::types::extra_props::SatData"
FIELDS = {"count": "max_witness_stack_count", "wsize": "max_witness_stack_size", "ssize": "max_script_sig_size"}
NARY = ("Thresh", "Multi", "SortedMulti", "MultiA", "SortedMultiA")


def sym_satdata(tag, i):
    return Adt(SATD, "SatData", {
        "max_witness_stack_size": Term("wsize" + tag, i), "max_witness_stack_count": Term("count" + tag, i),
        "max_script_sig_size": Term("ssize" + tag, i), "max_exec_stack_count": Term("exec" + tag, i),
        "max_exec_op_count": Term("ops_exec" + tag, i)})


def sym_ext(i, sat=True, dissat=True):
    return Adt(EXT, "ExtData", {
        "pk_cost": Term("pk_cost", i), "has_free_verify": Term("hfv", i), "static_ops": Term("static_ops", i),
        "sat_data": some(sym_satdata("S", i)) if sat else NONE,
        "dissat_data": some(sym_satdata("D", i)) if dissat else NONE,
        "timelock_info": Term("tl", i), "tree_height": Term("height", i)})


def with_ext(t, **kw):
    """replace the opaque ext of each child of a model terminal by symbolic ExtData"""
    i = 0
    for name, val in t.fields.items():
        if isinstance(val, Adt) and val.path == model.MS:
            val.fields["ext"] = sym_ext(i, **kw)
            i += 1
        elif isinstance(val, Adt) and val.path == model.THRESH:
            for c in val.fields["inner"].items:
                if isinstance(c, Adt) and c.path == model.MS:
                    c.fields["ext"] = sym_ext(i, **kw)
                    i += 1
    return t


def atom_image(a, field, ecdsa, uncompressed, ctx_keylen):
    """size image of one witness atom"""
    if field == "count":
        return {1: 1}
    if a == "0":
        return {1: 1}
    if a == "1":
        return {1: 2 if field == "wsize" else 1}
    if a == "zeros32" or a == ("pre",):
        return {1: 33}
    if isinstance(a, tuple) and a[0] == "sig":
        return {1: 73 if ecdsa else 66}
    if isinstance(a, tuple) and a[0] == "key":
        return {1: ctx_keylen}
    raise Unsupported("atom %r" % (a,))


def template_image(tmpl, field, **kw):
    """max-plus image of a specification template -> list of linear forms"""
    if tmpl == sat_spec.IMPOSSIBLE:
        return None
    if isinstance(tmpl, tuple) and tmpl and tmpl[0] == "alt":
        a, b = template_image(tmpl[1], field, **kw), template_image(tmpl[2], field, **kw)
        return maxplus.dedup((a or []) + (b or []))
    form = {}
    for a in tmpl:
        if isinstance(a, tuple) and a[0] in ("S", "D"):
            form = linform.add(form, {"%s%s(%d)" % (field, a[0], a[1]): 1})
        else:
            form = linform.add(form, atom_image(a, field, **kw))
    return [form]


def lib_atom(t):
    if isinstance(t, Term) and t.op in ("countS", "countD", "wsizeS", "wsizeD", "ssizeS", "ssizeD"):
        return "%s(%d)" % (t.op, t.args[0])
    return None


def opt_forms(opt, field):
    """Option<SatData> value -> None | max-plus forms of the field"""
    if isinstance(opt, Adt) and opt.path == OPTION:
        if opt.variant == "None":
            return None
        sd = opt.fields["0"]
        return maxplus.mp(sd.fields[FIELDS[field]], lib_atom)
    raise Unsupported("sat data value %r" % (opt,))


def path_context(conds):
    ecdsa, unc = True, False
    for t, d in conds:
        s = repr(t)
        if "sig_type" in s and t.op == "is":
            if t.args[1] == "Ecdsa":
                ecdsa = d
            elif t.args[1] == "Schnorr" and d:
                ecdsa = False
        if "is_uncompressed" in s:
            unc = d
    return ecdsa, unc


def run_type_check(F, tcp, frag, unc=None):
    """unc: None = explore key compressedness per key; True/False = all keys (un)compressed"""
    def unint(p, callee):
        tr = callee.get("trait") or ""
        if tr.endswith("ScriptContext") and not callee.get("resolved"):
            return True
        if tr.endswith("MiniscriptKey"):
            return True
        return p.endswith("script_num_size")
    m = Machine(F, strict=False, uninterpreted=unint)

    def assume(term, taken):
        if unc is not None and "is_uncompressed" in repr(term):
            return unc
        return None
    res = explore(m, lambda: m.call_path(tcp, [frag]), assume)
    return res, m


def concrete_sat_ext(t, sat=1, dissat=1):
    """children with concrete sat/dissat figures but symbolic script accounting"""
    i = 0
    def mk(i):
        sd = Adt(SATD, "SatData", {f: sat for f in ("max_witness_stack_size", "max_witness_stack_count",
                                                    "max_script_sig_size", "max_exec_stack_count", "max_exec_op_count")})
        dd = Adt(SATD, "SatData", {f: dissat for f in ("max_witness_stack_size", "max_witness_stack_count",
                                                       "max_script_sig_size", "max_exec_stack_count", "max_exec_op_count")})
        return Adt(EXT, "ExtData", {"pk_cost": Term("pk_cost", i), "has_free_verify": Term("hfv", i),
                                    "static_ops": Term("static_ops", i), "sat_data": some(sd), "dissat_data": some(dd),
                                    "timelock_info": Term("tl", i), "tree_height": 0})
    for name, val in t.fields.items():
        if isinstance(val, Adt) and val.path == model.THRESH:
            for c in val.fields["inner"].items:
                if isinstance(c, Adt) and c.path == model.MS:
                    c.fields["ext"] = mk(i)
                    i += 1
    return t


def check_sat_bounds(chk, F):
    rid = "R09.1"
    chk.rule(rid, "ExtData's max witness element count / witness size / scriptSig size for the satisfaction and "
                  "dissatisfaction of every fragment dominate the size image of the specification's template "
                  "(alt -> max, concatenation -> +, sig 73/66, preimage 33, `0` 1, `1` 2 in a witness, key push size)")
    try:
        tcp = F.fn("type_check", file="types/extra_props.rs", container="ExtData")
    except KeyError as e:
        chk.fail(rid, "anchor", "missing anchor %s" % e, kind="unanalysable")
        return
    chk.saw(tcp)
    where_tc = F.fns[tcp]["span"]
    nvar = 0
    for v in model.variants(F):
        if v in NARY:
            continue
        nvar += 1
        frag = with_ext(model.terminal(F, v))
        try:
            res, m = run_type_check(F, tcp, frag)
        except Unsupported as e:
            chk.fail(rid, v + "|unanalysable", "unanalysable: %s" % e, where_tc, kind="unanalysable")
            continue
        chk.saw(*m.called)
        want_sat, want_dis = sat_spec.TEMPLATES[v]
        for conds, r in res:
            if not (isinstance(r, Adt) and r.path == EXT):
                chk.fail(rid, v + "|shape", "ExtData::type_check(%s) gives %r" % (v, r), where_tc, kind="unanalysable")
                continue
            ecdsa, unc = path_context(conds)
            keylen = (66 if unc else 34) if ecdsa else 33
            ctxs = "ecdsa%s" % ("+uncompressed" if unc else "") if ecdsa else "schnorr"
            if v == "RawPkH" and ecdsa:
                keylen = 66   # the key behind a raw hash is unknown: worst case in Ecdsa contexts
            for tag, tmpl, opt in (("sat", want_sat, r.fields["sat_data"]), ("dissat", want_dis, r.fields["dissat_data"])):
                for field in ("count", "wsize", "ssize"):
                    key = "%s|%s|%s|%s" % (v, tag, field, ctxs) if conds else "%s|%s|%s" % (v, tag, field)
                    try:
                        got = opt_forms(opt, field)
                        want = template_image(tmpl, field, ecdsa=ecdsa, uncompressed=unc, ctx_keylen=keylen)
                    except (Unsupported, maxplus.NotMaxPlus, linform.NotLinear) as e:
                        chk.fail(rid, key + "|form", "not a max-plus expression: %s" % e, where_tc, kind="unanalysable")
                        continue
                    if want is None:
                        # no canonical witness: any figure (or none) is fine
                        chk.ok(rid)
                        continue
                    if got is None:
                        # the library keeps no figure: only sound if the type system never relies on it
                        if tag == "dissat":
                            rule, cf = type_spec.TYPE_CHECK_DISPATCH[v]
                            never_d = rule in ("cast_verify", "and_v", "or_c", "cast_true", "time", "TRUE")
                            chk.obligation(rid, never_d, key + "|none",
                                           "ExtData keeps no dissatisfaction figure for %s although it can be typed "
                                           "dissatisfiable and the satisfier has the template %r" % (v, tmpl), where_tc)
                        else:
                            chk.fail(rid, key + "|none", "ExtData keeps no satisfaction figure for %s (template %r)"
                                     % (v, tmpl), where_tc)
                        continue
                    okk, missing = maxplus.set_dominates(got, want)
                    chk.obligation(rid, okk, key,
                                   "%s of the %s of %s (%s) is %s but the satisfier's template %r needs %s: the static "
                                   "figure under-estimates" % (FIELDS[field], tag, v, ctxs, maxplus.show(got), tmpl,
                                                               maxplus.show(want)), where_tc,
                                   detail={"variant": v, "field": FIELDS[field], "library": maxplus.show(got),
                                           "needed": maxplus.show(want)})
            if v in ("AndOr", "OrI", "DupIf") and not conds:
                chk.sample({"variant": v, "sat witness size": maxplus.show(opt_forms(r.fields["sat_data"], "wsize"))})
    chk.floor(rid, "Terminal variants (fixed arity)", nvar, 25)


def check_multi_bounds(chk, F):
    rid = "R09.1m"
    chk.rule(rid, "multi / multi_a figures dominate their templates for all 1<=k<=n<=4 (and n=17, 20)")
    try:
        tcp = F.fn("type_check", file="types/extra_props.rs", container="ExtData")
    except KeyError as e:
        chk.fail(rid, "anchor", "missing anchor %s" % e, kind="unanalysable")
        return
    where = F.fns[tcp]["span"]
    for v in ("Multi", "SortedMulti", "MultiA", "SortedMultiA"):
        for n in (1, 2, 3, 4, 17, 20):
            for k in sorted(set([1, max(1, n // 2), n])):
                frag = model.terminal(F, v, n=n, k=k)
                try:
                    res, m = run_type_check(F, tcp, frag, unc=False)
                except Unsupported as e:
                    chk.fail(rid, v + "|unanalysable", "unanalysable: %s" % e, where, kind="unanalysable")
                    break
                for conds, r in res:
                    if not (isinstance(r, Adt) and r.path == EXT):
                        continue
                    ecdsa = v in ("Multi", "SortedMulti")
                    if ecdsa:
                        want = {"sat": {"count": k + 1, "wsize": 1 + 73 * k, "ssize": 1 + 73 * k},
                                "dissat": {"count": k + 1, "wsize": 1 + k, "ssize": 1 + k}}
                    else:
                        want = {"sat": {"count": n, "wsize": (n - k) + 66 * k, "ssize": 0},
                                "dissat": {"count": n, "wsize": n, "ssize": 0}}
                    for tag, opt in (("sat", r.fields["sat_data"]), ("dissat", r.fields["dissat_data"])):
                        for field in ("count", "wsize", "ssize"):
                            got = opt_forms(opt, field)
                            good = got is not None and len(got) == 1 and set(got[0]) <= {1} \
                                and got[0].get(1, 0) >= want[tag][field]
                            chk.obligation(rid, good, "%s|%s|%s" % (v, tag, field),
                                           "%s(k=%d,n=%d): %s of the %s is %s, the template needs %d"
                                           % (v, k, n, FIELDS[field], tag, maxplus.show(got) if got else None,
                                              want[tag][field]), where)


def check_thresh_bounds(chk, F):
    rid = "R09.1t"
    chk.rule(rid, "ExtData::threshold: additive figures dominate the maximum over all ways to satisfy k of n=3 "
                  "children and dissatisfy the rest (grid of child figures)")
    try:
        thp = F.fn("threshold", file="types/extra_props.rs", container="ExtData")
    except KeyError as e:
        chk.fail(rid, "anchor", "missing anchor %s" % e, kind="unanalysable")
        return
    chk.saw(thp)
    where = F.fns[thp]["span"]
    m = Machine(F, strict=False, uninterpreted=lambda p, c: p.endswith("script_num_size"))
    n = 3
    grid = [(1, 1), (9, 1), (5, 2), (9, 8)]   # (sat figure, dissat figure)
    bad = 0
    cells = 0
    for combo in itertools.product(grid, repeat=n):
        for k in (1, 2, 3):
            exts = []
            for (s, d) in combo:
                sd = Adt(SATD, "SatData", {f: s for f in ("max_witness_stack_size", "max_witness_stack_count",
                                                          "max_script_sig_size", "max_exec_stack_count", "max_exec_op_count")})
                dd = Adt(SATD, "SatData", {f: d for f in ("max_witness_stack_size", "max_witness_stack_count",
                                                          "max_script_sig_size", "max_exec_stack_count", "max_exec_op_count")})
                exts.append(Adt(EXT, "ExtData", {"pk_cost": 1, "has_free_verify": False, "static_ops": 0,
                                                 "sat_data": some(sd), "dissat_data": some(dd),
                                                 "timelock_info": Term("tl"), "tree_height": 0}))
            from ..interp import Closure

            class Sub(object):
                pass
            hooks = {}
            try:
                mm = Machine(F, strict=False, uninterpreted=lambda p, c: p.endswith("script_num_size")
                             or p.endswith("combine_threshold"))
                sub_fn = Term("subck")
                orig = mm.call_value

                def call_value(f, args, where="", _orig=orig, exts=exts):
                    if f == sub_fn:
                        return exts[args[0]]
                    return _orig(f, args, where)
                mm.call_value = call_value
                r = mm.call_path(thp, [k, n, sub_fn])
            except Panic as p:
                chk.fail(rid, "thresh|panic", "ExtData::threshold panics: %s" % p, where)
                return
            except Unsupported as e:
                chk.fail(rid, "thresh|unanalysable", "unanalysable: %s" % e, where, kind="unanalysable")
                return
            cells += 1
            need = max(sum(combo[i][0] if i in S else combo[i][1] for i in range(n))
                       for S in itertools.combinations(range(n), k))
            sd = r.fields["sat_data"]
            for field in ("max_witness_stack_count", "max_witness_stack_size", "max_script_sig_size"):
                got = sd.fields["0"].fields[field] if sd.variant == "Some" else None
                if got is None or (isinstance(got, int) and got < need):
                    bad += 1
                    if bad <= 3:
                        chk.fail(rid, "thresh|" + field, "ExtData::threshold(k=%d) with child (sat, dissat) figures %r "
                                 "gives %s = %r, but satisfying the most expensive k children needs %d"
                                 % (k, combo, field, got, need), where)
                else:
                    chk.ok(rid)
            need_d = sum(c[1] for c in combo)
            dd = r.fields["dissat_data"]
            got = dd.fields["0"].fields["max_witness_stack_size"] if dd.variant == "Some" else None
            chk.obligation(rid, isinstance(got, int) and got >= need_d, "thresh|dissat",
                           "ExtData::threshold dissatisfaction size %r < %d" % (got, need_d), where)
    chk.sample({"thresh grid cells": cells})


def check_script_accounting(chk, F, rid="R09.1s"):
    chk.rule(rid, "ExtData::pk_cost is the length image of the encoder's template (= script_size), static_ops its "
                  "number of non-push opcodes, has_free_verify = `template ends in an opcode with a fused VERIFY form`")
    try:
        tcp = F.fn("type_check", file="types/extra_props.rs", container="ExtData")
        P = scriptmodel.paths(F)
    except KeyError as e:
        chk.fail(rid, "anchor", "missing anchor %s" % e, kind="unanalysable")
        return
    where = F.fns[tcp]["span"]
    for n in (3, 16, 17):
        for v in model.variants(F):
            if n != 3 and v not in NARY:
                continue
            if n == 16 and v == "Thresh":
                continue
            try:
                runs = []   # (encoder tokens, type_check results)
                if v == "Thresh":
                    cfgs = [dict(k=2, unc=None)]
                elif v in NARY:
                    cfgs = [dict(k=kk, unc=unc) for unc in ((False, True) if v in ("Multi", "SortedMulti") else (False,))
                            for kk in ((2, 16, 17) if n > 16 else (2, 16) if n == 16 else (2,))]
                else:
                    cfgs = [dict(k=None, unc=None)]
                for cfg in cfgs:
                    res_e, _ = scriptmodel.run_encode(F, v, n=n, k=cfg["k"], P=P)
                    toks = [scriptmodel.nf_tokens(r) for c, r in res_e
                            if not (isinstance(r, tuple) and r and r[0] == "panic")]
                    if len(toks) != 1:
                        raise Unsupported("encoder paths")
                    if v == "Thresh":
                        frag = concrete_sat_ext(model.terminal(F, v, n=n, k=cfg["k"]))
                    elif v in NARY:
                        frag = model.terminal(F, v, n=n, k=cfg["k"])
                    else:
                        frag = with_ext(model.terminal(F, v, n=n, sym_k=True))
                    rr, m = run_type_check(F, tcp, frag, unc=cfg["unc"])
                    for conds, r in rr:
                        runs.append((toks[0], conds, r, cfg))
            except Unsupported as e:
                chk.fail(rid, v + "|unanalysable", "unanalysable: %s" % e, where, kind="unanalysable")
                continue
            nchild = model.arity(F, v, n=n)
            for toks, conds, r, cfg in runs:
                if not (isinstance(r, Adt) and r.path == EXT):
                    continue
                ecdsa, unc = path_context(conds)
                if cfg["unc"] is not None:
                    unc = cfg["unc"]
                if v in ("MultiA", "SortedMultiA"):
                    ecdsa = False
                keylen = (66 if unc else 34) if ecdsa else 33
                ctxs = ("ecdsa%s" % ("+uncompressed" if unc else "") if ecdsa else "schnorr") if (conds or v in NARY) else ""
                key = "%s|%s" % (v, ctxs) if ctxs else v
                if n != 3:
                    key += "|n=%d" % n
                if cfg["k"] is not None and v in NARY:
                    key += "|k=%d" % cfg["k"]

                def atom(t):
                    a = c04.size_atom(t)
                    if a == "verify_unfused":
                        return a
                    if a is not None:
                        return a
                    if isinstance(t, Term) and t.op in ("pk_cost", "static_ops"):
                        return "%s(%d)" % (t.op, t.args[0])
                    if isinstance(t, Term) and t.op == "into" and "hfv" in repr(t):
                        return "verify_unfused"
                    return None
                # pk_cost
                try:
                    got = linform.lin(r.fields["pk_cost"], atom)
                    want = c04.template_size(toks)
                    want = {(k2 if k2 != "pklen" else 1): 0 for k2 in want} and want
                    # concrete key length on this path
                    if "pklen" in want:
                        cnt = want.pop("pklen")
                        want = linform.add(want, {1: cnt * keylen})
                    for i in range(nchild):
                        want = linform.add(want, {"pk_cost(%d)" % i: 1})
                    good = got == want
                    chk.obligation(rid, good, "pk_cost|" + key,
                                   "ExtData pk_cost of %s (%s) is %s but the encoder's template is %s bytes long"
                                   % (v, ctxs or "any context", linform.show(got), linform.show(want)), where,
                                   detail={"variant": v, "pk_cost": linform.show(got), "template": linform.show(want)})
                except (linform.NotLinear, Unsupported) as e:
                    chk.fail(rid, "pk_cost|%s|form" % key, "pk_cost is not linear: %s" % e, where, kind="unanalysable")
                # static ops
                try:
                    got = linform.lin(r.fields["static_ops"], atom)
                    want = {1: script_spec.static_ops(toks)} if script_spec.static_ops(toks) else {}
                    if any(t[0] == "verify" for t in toks):
                        want = linform.add(want, {"verify_unfused": 1})
                    for i in range(nchild):
                        want = linform.add(want, {"static_ops(%d)" % i: 1})
                    if v in ("MultiA", "SortedMultiA"):
                        chk.ok(rid)   # no opcode limit in Tapscript: the library documents the figure as irrelevant
                    else:
                        chk.obligation(rid, got == want, "static_ops|" + key,
                                       "ExtData static_ops of %s is %s but the template has %s non-push opcodes"
                                       % (v, linform.show(got), linform.show(want)), where)
                except (linform.NotLinear, Unsupported) as e:
                    chk.fail(rid, "static_ops|%s|form" % key, "static_ops not linear: %s" % e, where, kind="unanalysable")
                # has_free_verify
                last = toks[-1] if toks else None
                hfv = r.fields["has_free_verify"]
                if last is not None and last[0] == "op":
                    want_h = last[1] in script_spec.FUSED
                    chk.obligation(rid, hfv is want_h, "hfv|" + key,
                                   "has_free_verify of %s is %r but its script ends in %s" %
                                   (v, hfv, script_spec.OPNAME.get(last[1], last[1])), where)
                elif last is not None and last[0] == "child":
                    chk.obligation(rid, hfv == Term("hfv", last[1]), "hfv|" + key,
                                   "has_free_verify of %s is %r but its script ends with child %d" % (v, hfv, last[1]), where)
                elif last is not None and last[0] in ("verify", "key", "push", "num", "keyhash"):
                    chk.obligation(rid, hfv is False, "hfv|" + key,
                                   "has_free_verify of %s is %r but its script ends in %r" % (v, hfv, last), where)
    # multi_a / sortedmulti_a take only (k, n): the whole grid across the breakpoints of the number push is cheap
    try:
        m = Machine(F, strict=True)
        for fnname in ("multi_a", "sortedmulti_a"):
            f = F.fn(fnname, file="types/extra_props.rs", container="ExtData")
            chk.saw(f)
            for n, k in [(1, 1), (3, 2), (16, 16), (17, 2), (17, 16), (17, 17), (127, 127), (128, 127), (128, 128), (200, 129),
                         (999, 16), (999, 17), (999, 128), (999, 999)]:
                r = m.call_path(f, [k, n])
                got = deref(r.fields["pk_cost"])
                numlen = 1 if k <= 16 else 2 if k < 0x80 else 3
                want = 34 * n + numlen + 1
                chk.obligation(rid, got == want, "pk_cost|%s(%d,%d)" % (fnname, k, n),
                               "ExtData::%s(k=%d, n=%d).pk_cost is %r; the script (n 32-byte key pushes, CHECKSIG, n-1 "
                               "CHECKSIGADD, the number k, NUMEQUAL) is %d bytes long" % (fnname, k, n, got, want), F.fns[f]["span"])
    except KeyError as e:
        chk.fail(rid, "anchor|multi_a", "missing anchor %s" % e, kind="unanalysable")
    except Unsupported as e:
        chk.fail(rid, "multi_a|unanalysable", "unanalysable: %s" % e, where, kind="unanalysable")
    except Panic as e:
        chk.fail(rid, "multi_a|panic", "panic: %s" % e, where)


# ---- R09.7 static figures vs the satisfactions the satisfier produces -------------------------------------------------

def _measure_work(args):
    import itertools
    from .. import facts, textmodel as tm
    from ..interp import Adt, Panic
    from . import c06, c13, e2e, decoder
    X = c13.X
    F = facts.load()
    text, ctx = args
    out = []
    try:
        T_ = c06.Typer(F)
        tr = tm.parse_tree(F, T_.m, text)
        ri = T_.m.call_path(T_.root, [tr.fields["0"]])
        st = "miniscript::private::Miniscript<std::string::String, %s>" % c06.CTX[ctx]
        r = T_.m.call_callee({"def": "expression::FromTree::from_tree", "resolved": T_.ft, "name": "from_tree",
                              "trait": "expression::FromTree",
                              "resolved_container": "miniscript::<impl expression::FromTree for miniscript::private::Miniscript<Pk, Ctx>>",
                              "self_ty": st, "targs": [st]}, [ri])
        if not (isinstance(r, Adt) and r.variant == "Ok"):
            return text, ctx, 0, [("skip", "not accepted by the parser")]
        ms = r.fields["0"]
        ext = ms.fields["ext"]
        ast = X.parse(text)
        # script size: announced (script_size and ext.pk_cost) vs the specification's script
        real_len = decoder.Script(decoder.instructions(X.script(ast, ctx))).byte_len()
        ss = [q for q in F.fns if q.endswith("Miniscript<Pk, Ctx>>::script_size") or q.endswith("Miniscript::<Pk, Ctx>::script_size")]
        if len(ss) != 1:
            out.append(("unanalysable", "Miniscript::script_size not found (%d candidates)" % len(ss)))
        else:
            got = T_.m.call_callee({"def": ss[0], "resolved": ss[0], "name": "script_size", "targs": ["std::string::String", c06.CTX[ctx]]}, [ms])
            if got != real_len:
                out.append(("bad", "script_size() = %r, the script has %d bytes" % (got, real_len)))
        if ext.fields["pk_cost"] != real_len:
            out.append(("bad", "ext.pk_cost = %r, the script has %d bytes" % (ext.fields["pk_cost"], real_len)))
        sd = ext.fields["sat_data"]
        # the public accessors read the same figures
        for nm, want_of in (("max_satisfaction_size", lambda d: d.fields["max_witness_stack_size"]),
                            ("max_satisfaction_witness_elements", lambda d: d.fields["max_witness_stack_count"] + 1)):
            q = [x for x in F.fns if x.endswith("Miniscript<Pk, Ctx>>::" + nm) or x.endswith("Miniscript::<Pk, Ctx>::" + nm)]
            if len(q) != 1:
                out.append(("unanalysable", "Miniscript::%s not found (%d candidates)" % (nm, len(q))))
            else:
                rr = T_.m.call_callee({"def": q[0], "resolved": q[0], "name": nm, "targs": ["std::string::String", c06.CTX[ctx]]}, [ms])
                if sd.variant == "Some":
                    w_ = want_of(sd.fields["0"])
                    if not (isinstance(rr, Adt) and rr.variant == "Ok" and rr.fields["0"] == w_):
                        out.append(("bad", "%s() gives %r, the announced figure is %r" % (nm, rr, w_)))
                elif not (isinstance(rr, Adt) and rr.variant == "Err"):
                    out.append(("bad", "%s() gives %r although no satisfaction exists" % (nm, rr)))
        S = e2e.Sat(F)
        mdl = e2e.to_model(F, ast, ctx)
        keys, hashes = e2e.keys_hashes(ast)
        n = 0

        def elem_size(x):
            if x == 0:
                return 1
            if x == 1:
                return 2
            ln = x.length
            if getattr(x, "kind", "") == "sig":
                ln = 72 if ctx != "tap" else 65          # low-S DER signature / Schnorr signature, incl. the sighash byte
            return 1 + ln if ln < 253 else 3 + ln
        worst = (0, 0, None)
        for r_ in range(len(keys) + 1):
            for ks in itertools.combinations(keys, r_):
                for hs in ([set()] if not hashes else [set(), set(hashes)]):
                    assets = {"keys": set(ks), "pre": set(hs), "older": lambda n_: True, "after": lambda n_: True}
                    for mall in (False, True):
                        n += 1
                        sat = S.template(mdl, ctx, assets, mall)
                        stk = sat.fields["stack"]
                        if stk.variant != "Stack":
                            continue
                        w = e2e.placeholders(stk.fields["0"].items, ctx)
                        cnt, size = len(w), sum(elem_size(x) for x in w)
                        if sd.variant != "Some":
                            out.append(("bad", "a satisfaction %r is produced although no satisfaction figures are announced" % (w,)))
                            continue
                        mc, msz = sd.fields["0"].fields["max_witness_stack_count"], sd.fields["0"].fields["max_witness_stack_size"]
                        if cnt > mc:
                            out.append(("bad", "witness %r has %d elements, announced maximum %r" % (w, cnt, mc)))
                        if size > msz:
                            out.append(("bad", "witness %r takes %d bytes, announced maximum %r" % (w, size, msz)))
                        if len(out) > 3:
                            return text, ctx, n, out
        return text, ctx, n, out
    except Unsupported as e:
        return text, ctx, 0, [("unanalysable", "unanalysable: %s" % e)]
    except Panic as e:
        return text, ctx, 0, [("bad", "panic: %s" % e)]


def check_measured(chk, F):
    import multiprocessing as mp
    import os as _os
    from . import e2e
    rid = "R09.7"
    chk.rule(rid, "whole scripts (~60, both contexts), figures computed by evaluating the library's parser / type checker vs "
                  "what the evaluated satisfier produces for every subset of keys x preimages x both modes: script_size() and "
                  "ext.pk_cost equal the byte length of the specification's script; every produced witness has at most "
                  "max_witness_stack_count elements and max_witness_stack_size bytes (ECDSA signatures 72, Schnorr 65 bytes incl. the sighash byte)")
    with mp.Pool(min(16, _os.cpu_count() or 4)) as pool:
        res = pool.map(_measure_work, list(e2e.FAMILY), chunksize=2)
    n_scripts = n_cases = 0
    for text, ctx, n, out in res:
        kinds = set(k for k, _ in out)
        if "skip" in kinds:
            continue
        key = "%s|%s" % (ctx, text)
        n_scripts += 1
        n_cases += n
        if "unanalysable" in kinds:
            chk.fail(rid, "unanalysable:" + key, out[0][1], kind="unanalysable")
            continue
        bad = [msg for k, msg in out if k == "bad"]
        chk.obligation(rid, not bad, key, "%d discrepancy(ies); first: %s" % (len(bad), bad[0] if bad else ""),
                       where="src/miniscript/types/extra_props.rs", detail=bad[:4])
    chk.extra["R09.7_cases"] = n_cases
    chk.floor(rid, "scripts measured", n_scripts, 50)
    chk.floor(rid, "satisfier runs", n_cases, 400)


def run(chk):
    F = chk.facts()
    chk.explanation = (
        "Decides structural necessary conditions, not measured bounds: (R09.1) each ExtData rule's witness "
        "count/size/scriptSig-size figure for sat and dissat, extracted symbolically as a max-plus expression over "
        "the children's figures, dominates the size image of the specification's satisfaction template; multi / "
        "multi_a / thresh on grids; (R09.1s) pk_cost, static_ops and has_free_verify agree with the encoder's "
        "template; (R09.2/3) the limit comparisons pair the right figure with the right limit and the constants are "
        "Bitcoin's; (R09.4/5) weight formulas and plan/placeholder sizes agree with the assembly.")
    chk.trusted = ["spec/satisfaction.py, spec/script.py, spec/limits.py", "factgen THIR; msverif.interp"]
    chk.assumptions = ["executed-opcode and exec-stack-depth figures are not decided",
                       "thresh / multi rules are evaluated for small n"]
    check_sat_bounds(chk, F)
    check_multi_bounds(chk, F)
    check_thresh_bounds(chk, F)
    check_script_accounting(chk, F)
    from . import limits
    limits.check_limits(chk, F)
    from . import weights
    chk.guard("R09.4", "weights", weights.check_weights, chk, F)
    # R09.6: every limit comparison and weight formula reads Miniscript::script_size: it must be the length of the
    # script the encoder emits (rules shared with C04)
    from . import c04
    from ..report import RuleAlias
    chk.guard("R09.6", "script_size", c04.check_sizes_shared,
              RuleAlias(chk, {"R04.1": "R09.6", "R04.2": "R09.6"}, "script_size, which the size limits and weight formulas "
                                                                   "use, equals the encoded length"), F)
    chk.guard("R09.7", "measured", check_measured, chk, F)
    from . import ctors
    chk.guard("R09.8", "typed-constructors", ctors.check_typed_constructors, chk, F, "R09.8")
    # the witness size a plan announces is summed from the sizes the asset provider reports for each signature: when the
    # provider is a Satisfier (the blanket impl) those are the held signatures' real lengths (rule shared with C17)
    from . import c17
    chk.guard("R09.9", "provider-sizes", c17.check_satisfier_as_provider, chk, F, "R09.9")
    chk.guard("R09.10", "tr-weight", weights.check_tr_weight, chk, F)
    # "the sizes a spending plan announces": witness_size / scriptsig_size against what Plan::satisfy builds (rules shared
    # with C17)
    from . import assembly
    chk.guard("R09.11", "plan-sizes", assembly.check_plan_sizes, chk, F, "R09.11")
    chk.guard("R09.12", "scriptsig-size", c17.check_scriptsig_size, chk, F, "R09.12")
