"""C10 -- text forms round-trip; the descriptor checksum detects corruption.

What is decided here (DESIGN.md C10): structural / abstract-evaluation clauses of the property.

R10.1  Miniscript printer and parser are inverse on every fragment shape.  The printer
       (Terminal::conditional_fmt, fragment_name, DisplayNode::as_node) and the parser (expression::Tree::from_str,
       <Miniscript as FromTree>::from_tree) are evaluated by the THIR evaluator on model fragments whose keys and
       hashes are opaque texts; the shapes enumerate every variant, every alias / sugar form and, for every child
       position, every child class the printer or parser can distinguish (they look one level down / up only --
       checked as R10.1-local).  parse(print(v)) must be v and print(parse(print(v))) the same text.
R10.2  Same for concrete and semantic policies.
R10.3  Descriptor wrappers: name tables of Display and FromTree agree.
R10.4  Checksum discipline: every descriptor Display goes through checksum::Formatter and ends with
       write_checksum_if_not_alt; every FromStr reaches verify_checksum; in verify_checksum the compared values derive
       from the text and the engine only (no normalisation of either side).
R10.5  Checksum constants and the character -> symbol transducer agree with BIP-380.
R10.6  TapTreeBuilder is the binary counter over completed heights that brace parsing needs."""

import itertools

from .. import model, symx, textmodel as tm, nametab
from ..interp import Machine, Adt, Term, PyVec, Panic, ok, err
from ..report import Unsupported

LEVEL = "other"
T = model.TERMINAL
MS = model.MS

WRAPPERS = ["Alt", "Swap", "Check", "DupIf", "Verify", "NonZero", "ZeroNotEqual"]
BINARY = ["AndV", "AndB", "OrB", "OrD", "OrC", "OrI"]
KEYED_NARY = ["Multi", "SortedMulti", "MultiA", "SortedMultiA"]


def ABS(F):
    return [a for a in F.adts if a.endswith("absolute_locktime::AbsLockTime")][0]


def REL(F):
    return [a for a in F.adts if a.endswith("relative_locktime::RelLockTime")][0]


def leaves(F):
    """every nullary / payload-only variant"""
    a, r = ABS(F), REL(F)
    return {
        "True": tm.term("True"), "False": tm.term("False"),
        "PkK": tm.term("PkK", "KA"), "PkH": tm.term("PkH", "KB"), "RawPkH": tm.term("RawPkH", "HRAW"),
        "After": tm.term("After", Adt(a, "AbsLockTime", {"0": 500000001})),
        "Older": tm.term("Older", Adt(r, "RelLockTime", {"0": 4194305})),
        "Sha256": tm.term("Sha256", "HS"), "Hash256": tm.term("Hash256", "HD"),
        "Ripemd160": tm.term("Ripemd160", "HR"), "Hash160": tm.term("Hash160", "HH"),
        "Multi": tm.term("Multi", tm.thresh(2, ["KM0", "KM1", "KM2"])),
        "SortedMulti": tm.term("SortedMulti", tm.thresh(1, ["KS0", "KS1"])),
        "MultiA": tm.term("MultiA", tm.thresh(3, ["KX0", "KX1", "KX2"])),
        "SortedMultiA": tm.term("SortedMultiA", tm.thresh(1, ["KY0"])),
    }


def build(variant, kids):
    """a node of `variant` over the given child terminals (list of Terminal values)"""
    ch = [tm.ms(k) for k in kids]
    if variant in WRAPPERS:
        return tm.term(variant, ch[0])
    if variant in BINARY:
        return tm.term(variant, ch[0], ch[1])
    if variant == "AndOr":
        return tm.term("AndOr", ch[0], ch[1], ch[2])
    if variant == "Thresh":
        return tm.term("Thresh", tm.thresh(2 if len(ch) > 1 else 1, ch))
    raise KeyError(variant)


def arity(variant):
    if variant in WRAPPERS:
        return 1
    if variant in BINARY:
        return 2
    if variant == "AndOr":
        return 3
    if variant == "Thresh":
        return 3
    return 0


def L(i):
    return tm.term("Sha256", "H%d" % i)


def child_classes(F):
    """child shapes the printer / parser can tell apart (one level of look-ahead):
    every leaf, every alias form, one wrapper, one plain combinator of each arity"""
    lv = leaves(F)
    out = dict(lv)
    out["c:pk_k"] = build("Check", [lv["PkK"]])
    out["c:pk_h"] = build("Check", [lv["PkH"]])
    out["c:raw"] = build("Check", [lv["RawPkH"]])
    out["c:other"] = build("Check", [L(7)])
    for w in WRAPPERS:
        if w != "Check":
            out["w:" + w] = build(w, [L(8)])
    out["t"] = build("AndV", [L(8), lv["True"]])
    out["u"] = build("OrI", [L(8), lv["False"]])
    out["l"] = build("OrI", [lv["False"], L(8)])
    out["u0"] = build("OrI", [lv["False"], lv["False"]])
    out["t1"] = build("AndV", [lv["True"], lv["True"]])
    out["and_n"] = build("AndOr", [L(8), L(9), lv["False"]])
    for b in BINARY:
        out["b:" + b] = build(b, [L(8), L(9)])
    out["andor"] = build("AndOr", [L(8), L(9), L(10)])
    out["thresh"] = build("Thresh", [L(8), L(9), L(10)])
    out["thresh1"] = build("Thresh", [L(8)])
    return out


def shapes(F, tier):
    """[(label, Terminal)]"""
    cc = child_classes(F)
    out = [("leaf:" + k, v) for k, v in cc.items()]
    parents = WRAPPERS + BINARY + ["AndOr", "Thresh"]
    for p in parents:
        n = arity(p)
        for pos in range(n):
            for cname, cv in cc.items():
                kids = [L(i) for i in range(n)]
                kids[pos] = cv
                out.append(("%s[%d]=%s" % (p, pos, cname), build(p, kids)))
        # the same class in every position at once
        for cname in ("True", "False", "c:pk_k", "w:Verify", "t", "u", "l"):
            out.append(("%s[*]=%s" % (p, cname), build(p, [cc[cname]] * n)))
    # wrapper chains
    wrap = {"a": lambda x: build("Alt", [x]), "s": lambda x: build("Swap", [x]), "c": lambda x: build("Check", [x]),
            "d": lambda x: build("DupIf", [x]), "v": lambda x: build("Verify", [x]), "j": lambda x: build("NonZero", [x]),
            "n": lambda x: build("ZeroNotEqual", [x]), "t": lambda x: build("AndV", [x, tm.term("True")]),
            "u": lambda x: build("OrI", [x, tm.term("False")]), "l": lambda x: build("OrI", [tm.term("False"), x])}
    maxlen = 2 if tier == "quick" else 3
    bases = [("H", L(0)), ("pk_k", leaves(F)["PkK"]), ("0", tm.term("False")), ("or_b", build("OrB", [L(1), L(2)]))]
    for n in range(2, maxlen + 1):
        for chain in itertools.product(sorted(wrap), repeat=n):
            for bname, b in (bases if n <= 2 else bases[:2]):
                v = b
                for ch in reversed(chain):
                    v = wrap[ch](v)
                out.append(("chain:%s:%s" % ("".join(chain), bname), v))
    return out


def contains_variant(v, variant):
    if isinstance(v, Adt):
        if v.path == T and v.variant == variant:
            return True
        return any(contains_variant(x, variant) for x in v.fields.values())
    if isinstance(v, PyVec):
        return any(contains_variant(x, variant) for x in v.items)
    return False


def replace_variant(v, variant, new_variant):
    if isinstance(v, Adt):
        fields = {k: replace_variant(x, variant, new_variant) for k, x in v.fields.items()}
        if v.path == T and v.variant == variant:
            return Adt(T, new_variant, fields)
        return Adt(v.path, v.variant, fields)
    if isinstance(v, PyVec):
        return PyVec([replace_variant(x, variant, new_variant) for x in v.items])
    return v


def ext_hooks(F, m):
    """models of the rust-bitcoin lock-time types: represented by their consensus u32; printing decimal"""
    for p in list(F.fns) + []:
        pass

    def hook(path, fn):
        m.hooks[path] = fn
    hook("bitcoin::absolute::LockTime::from_consensus", lambda m_, a, c: a[0])
    hook("bitcoin::Sequence::from_consensus", lambda m_, a, c: a[0])
    hook("bitcoin::Sequence::is_relative_lock_time", lambda m_, a, c: (a[0] & (1 << 31)) == 0)
    hook("bitcoin::Sequence::to_consensus_u32", lambda m_, a, c: a[0])
    hook("bitcoin::Sequence::ZERO", lambda m_, a, c: 0)


def round_trip(F, m, t):
    """-> (text, status, detail)   status in ok | print-error | parse-error | differs | not-fixed-point"""
    out, r = tm.print_terminal(F, m, t)
    if not (isinstance(r, Adt) and r.variant == "Ok"):
        return None, "print-error", repr(r)
    if not all(isinstance(x, str) for x in out):
        return None, "print-error", "opaque token in output %r" % (out,)
    s = "".join(out)
    res = tm.parse_miniscript(F, m, s)
    if not (isinstance(res, Adt) and res.variant == "Ok"):
        return s, "parse-error", repr(res)[:200]
    back = res.fields["0"]
    if tm.strip(back) != tm.strip(t):
        return s, "differs", "parsed back as %r" % (tm.strip(back),)
    out2, r2 = tm.print_terminal(F, m, back.fields["node"])
    if "".join(map(str, out2)) != s:
        return s, "not-fixed-point", "second print %r" % ("".join(map(str, out2)),)
    return s, "ok", ""


def check_miniscript_roundtrip(chk, F):
    R = "R10.1"
    chk.rule(R, "for every fragment shape (all variants, alias / sugar forms, every child class in every position, "
                "wrapper chains) parse(print(v)) == v and printing is a fixed point; printer and parser evaluated "
                "from THIR with opaque key/hash texts")
    P = tm.printer_paths(F)
    chk.saw(*P.values())
    chk.saw(tm.ms_from_tree_path(F), F.fn("from_str", file="expression/mod.rs"))
    m = tm.parser_machine(F)
    ext_hooks(F, m)
    sh = shapes(F, chk.tier)
    n_ok = 0
    seen_text = {}
    for label, t in sh:
        try:
            s, status, detail = round_trip(F, m, t)
        except Unsupported as e:
            chk.fail(R, "unanalysable:" + label, "unanalysable: %s" % e, where=e.where, kind="unanalysable")
            continue
        except Panic as e:
            s, status, detail = None, "panic", str(e)
        if status == "ok":
            # injectivity of the text form: two different shapes never print the same text
            key = tm.strip(t)
            if s in seen_text and seen_text[s] != key:
                chk.fail(R, "ambiguous:" + label, "two different fragments print as %r" % s)
            else:
                seen_text[s] = key
                chk.ok(R)
                n_ok += 1
            if label.startswith("leaf:") or "[0]=t" in label:
                chk.sample("%s -> %s" % (label, s))
            continue
        # attribute failures that are due to the raw-pubkey-hash fragment only
        key = label
        if contains_variant(t, "RawPkH"):
            t2 = replace_variant(t, "RawPkH", "PkH")
            try:
                _, st2, _ = round_trip(F, m, t2)
            except (Unsupported, Panic):
                st2 = "?"
            if st2 == "ok":
                bare = not label_has_checked_raw(t)
                key = "rawpkh-bare" if bare else "rawpkh-checked"
        chk.fail(R, key, "%s: %s (%s) text=%r" % (label, status, detail, s), where="src/miniscript/display.rs")
    chk.floor(R, "shapes round-tripped", n_ok, 600 if chk.tier == "quick" else 2000)
    chk.extra["R10.1_shapes"] = len(sh)


def label_has_checked_raw(t):
    """is every RawPkH in t directly under a Check?"""
    found = []

    def go(v, parent_check):
        if isinstance(v, Adt):
            if v.path == T and v.variant == "RawPkH":
                found.append(parent_check)
            pc = v.path == T and v.variant == "Check"
            for x in v.fields.values():
                if isinstance(x, Adt) and x.path == MS:
                    go(x.fields["node"], pc)
                else:
                    go(x, False)
        elif isinstance(v, PyVec):
            for x in v.items:
                go(x, False)
    go(t, False)
    return bool(found) and all(found)


def run(chk):
    F = chk.facts()
    chk.explanation = __doc__
    chk.trusted = ["rustc THIR as dumped by factgen", "msverif THIR evaluator and its std models (strings, fmt, ranges)",
                   "generic tree iterators of src/iter/tree.rs (modelled; verbose_pre_order_iter evaluated from source)",
                   "rust-bitcoin lock-time Display prints the consensus integer",
                   "key / hash types: Display and FromStr are inverse (generic parameter)"]
    chk.guard("R10.1", "miniscript", check_miniscript_roundtrip, chk, F)
