"""C10 -- text forms round-trip; the descriptor checksum detects corruption.

What is decided here (DESIGN.md C10): structural / abstract-evaluation clauses of the property.

R10.1  Miniscript printer and parser are inverse on every fragment shape.  The printer
       (Terminal::conditional_fmt, fragment_name, DisplayNode::as_node) and the parser (expression::Tree::from_str,
       <Miniscript as FromTree>::from_tree) are evaluated by the THIR evaluator on model fragments whose keys and
       hashes are opaque texts; the shapes enumerate every variant, every alias / sugar form and, for every child
       position, every child class the printer or parser can distinguish (they look one level down / up only --
       checked as R10.1-local).  parse(print(v)) must be v and print(parse(print(v))) the same text.
R10.2  Same for concrete and semantic policies.
R10.3  Descriptor wrappers: name tables of Display and FromTree agree.
R10.4  Checksum discipline: every descriptor Display goes through checksum::Formatter and ends with
       write_checksum_if_not_alt; every FromStr reaches verify_checksum; in verify_checksum the compared values derive
       from the text and the engine only (no normalisation of either side).
R10.5  Checksum constants and the character -> symbol transducer agree with BIP-380.
R10.6  TapTreeBuilder is the binary counter over completed heights that brace parsing needs."""

import itertools

from .. import model, symx, textmodel as tm, nametab
from .. import builtins as B
from ..interp import Machine, Adt, Term, PyVec, Panic, ok, err, dcopy
from ..report import Unsupported

LEVEL = "other"
import os
ONLY = os.environ.get("C10_ONLY", "")
T = model.TERMINAL
MS = model.MS

WRAPPERS = ["Alt", "Swap", "Check", "DupIf", "Verify", "NonZero", "ZeroNotEqual"]
BINARY = ["AndV", "AndB", "OrB", "OrD", "OrC", "OrI"]
KEYED_NARY = ["Multi", "SortedMulti", "MultiA", "SortedMultiA"]


def ABS(F):
    return [a for a in F.adts if a.endswith("absolute_locktime::AbsLockTime")][0]


def REL(F):
    return [a for a in F.adts if a.endswith("relative_locktime::RelLockTime")][0]


def leaves(F):
    """every nullary / payload-only variant"""
    a, r = ABS(F), REL(F)
    return {
        "True": tm.term("True"), "False": tm.term("False"),
        "PkK": tm.term("PkK", "KA"), "PkH": tm.term("PkH", "KB"), "RawPkH": tm.term("RawPkH", "HRAW"),
        "After": tm.term("After", Adt(a, "AbsLockTime", {"0": 500000001})),
        "Older": tm.term("Older", Adt(r, "RelLockTime", {"0": 4194305})),
        "Sha256": tm.term("Sha256", "HS"), "Hash256": tm.term("Hash256", "HD"),
        "Ripemd160": tm.term("Ripemd160", "HR"), "Hash160": tm.term("Hash160", "HH"),
        "Multi": tm.term("Multi", tm.thresh(2, ["KM0", "KM1", "KM2"])),
        "SortedMulti": tm.term("SortedMulti", tm.thresh(1, ["KS0", "KS1"])),
        "MultiA": tm.term("MultiA", tm.thresh(3, ["KX0", "KX1", "KX2"])),
        "SortedMultiA": tm.term("SortedMultiA", tm.thresh(1, ["KY0"])),
    }


def build(variant, kids):
    """a node of `variant` over the given child terminals (list of Terminal values)"""
    ch = [tm.ms(k) for k in kids]
    if variant in WRAPPERS:
        return tm.term(variant, ch[0])
    if variant in BINARY:
        return tm.term(variant, ch[0], ch[1])
    if variant == "AndOr":
        return tm.term("AndOr", ch[0], ch[1], ch[2])
    if variant == "Thresh":
        return tm.term("Thresh", tm.thresh(2 if len(ch) > 1 else 1, ch))
    raise KeyError(variant)


def arity(variant):
    if variant in WRAPPERS:
        return 1
    if variant in BINARY:
        return 2
    if variant == "AndOr":
        return 3
    if variant == "Thresh":
        return 3
    return 0


def L(i):
    return tm.term("Sha256", "H%d" % i)


def child_classes(F):
    """child shapes the printer / parser can tell apart (one level of look-ahead):
    every leaf, every alias form, one wrapper, one plain combinator of each arity"""
    lv = leaves(F)
    out = dict(lv)
    out["c:pk_k"] = build("Check", [lv["PkK"]])
    out["c:pk_h"] = build("Check", [lv["PkH"]])
    out["c:raw"] = build("Check", [lv["RawPkH"]])
    out["c:other"] = build("Check", [L(7)])
    for w in WRAPPERS:
        if w != "Check":
            out["w:" + w] = build(w, [L(8)])
    out["t"] = build("AndV", [L(8), lv["True"]])
    out["u"] = build("OrI", [L(8), lv["False"]])
    out["l"] = build("OrI", [lv["False"], L(8)])
    out["u0"] = build("OrI", [lv["False"], lv["False"]])
    out["t1"] = build("AndV", [lv["True"], lv["True"]])
    out["and_n"] = build("AndOr", [L(8), L(9), lv["False"]])
    for b in BINARY:
        out["b:" + b] = build(b, [L(8), L(9)])
    out["andor"] = build("AndOr", [L(8), L(9), L(10)])
    out["thresh"] = build("Thresh", [L(8), L(9), L(10)])
    out["thresh1"] = build("Thresh", [L(8)])
    return out


def shapes(F, tier):
    """[(label, Terminal)]"""
    cc = child_classes(F)
    out = [("leaf:" + k, v) for k, v in cc.items()]
    parents = WRAPPERS + BINARY + ["AndOr", "Thresh"]
    for p in parents:
        n = arity(p)
        for pos in range(n):
            for cname, cv in cc.items():
                kids = [L(i) for i in range(n)]
                kids[pos] = cv
                out.append(("%s[%d]=%s" % (p, pos, cname), build(p, kids)))
        # the same class in every position at once
        for cname in ("True", "False", "c:pk_k", "w:Verify", "t", "u", "l"):
            out.append(("%s[*]=%s" % (p, cname), build(p, [cc[cname]] * n)))
    # wrapper chains
    wrap = {"a": lambda x: build("Alt", [x]), "s": lambda x: build("Swap", [x]), "c": lambda x: build("Check", [x]),
            "d": lambda x: build("DupIf", [x]), "v": lambda x: build("Verify", [x]), "j": lambda x: build("NonZero", [x]),
            "n": lambda x: build("ZeroNotEqual", [x]), "t": lambda x: build("AndV", [x, tm.term("True")]),
            "u": lambda x: build("OrI", [x, tm.term("False")]), "l": lambda x: build("OrI", [tm.term("False"), x])}
    maxlen = 2 if tier == "quick" else 3
    bases = [("H", L(0)), ("pk_k", leaves(F)["PkK"]), ("0", tm.term("False")), ("or_b", build("OrB", [L(1), L(2)]))]
    for n in range(2, maxlen + 1):
        for chain in itertools.product(sorted(wrap), repeat=n):
            for bname, b in (bases if n <= 2 else bases[:2]):
                v = b
                for ch in reversed(chain):
                    v = wrap[ch](v)
                out.append(("chain:%s:%s" % ("".join(chain), bname), v))
    return out


def contains_variant(v, variant):
    if isinstance(v, Adt):
        if v.path == T and v.variant == variant:
            return True
        return any(contains_variant(x, variant) for x in v.fields.values())
    if isinstance(v, PyVec):
        return any(contains_variant(x, variant) for x in v.items)
    return False


def replace_variant(v, variant, new_variant):
    if isinstance(v, Adt):
        fields = {k: replace_variant(x, variant, new_variant) for k, x in v.fields.items()}
        if v.path == T and v.variant == variant:
            return Adt(T, new_variant, fields)
        return Adt(v.path, v.variant, fields)
    if isinstance(v, PyVec):
        return PyVec([replace_variant(x, variant, new_variant) for x in v.items])
    return v


def ext_hooks(F, m):
    """(the rust-bitcoin lock-time types are modelled in builtins by their consensus u32)"""
    return m


def round_trip(F, m, t):
    """-> (text, status, detail)   status in ok | print-error | parse-error | differs | not-fixed-point"""
    out, r = tm.print_terminal(F, m, t)
    if not (isinstance(r, Adt) and r.variant == "Ok"):
        return None, "print-error", repr(r)
    if not all(isinstance(x, str) for x in out):
        return None, "print-error", "opaque token in output %r" % (out,)
    s = "".join(out)
    res = tm.parse_miniscript(F, m, s)
    if not (isinstance(res, Adt) and res.variant == "Ok"):
        return s, "parse-error", repr(res)[:200]
    back = res.fields["0"]
    if tm.strip(back) != tm.strip(t):
        return s, "differs", "parsed back as %r" % (tm.strip(back),)
    out2, r2 = tm.print_terminal(F, m, back.fields["node"])
    if "".join(map(str, out2)) != s:
        return s, "not-fixed-point", "second print %r" % ("".join(map(str, out2)),)
    return s, "ok", ""


def check_miniscript_roundtrip(chk, F):
    R = "R10.1"
    chk.rule(R, "for every fragment shape (all variants, alias / sugar forms, every child class in every position, "
                "wrapper chains) parse(print(v)) == v and printing is a fixed point; printer and parser evaluated "
                "from THIR with opaque key/hash texts")
    P = tm.printer_paths(F)
    chk.saw(*P.values())
    chk.saw(tm.ms_from_tree_path(F), F.fn("from_str", file="expression/mod.rs"))
    m = tm.parser_machine(F)
    ext_hooks(F, m)
    sh = shapes(F, chk.tier)
    n_ok = 0
    seen_text = {}
    for label, t in sh:
        try:
            s, status, detail = round_trip(F, m, t)
        except Unsupported as e:
            chk.fail(R, "unanalysable:" + label, "unanalysable: %s" % e, where=e.where, kind="unanalysable")
            continue
        except Panic as e:
            s, status, detail = None, "panic", str(e)
        if status == "ok":
            # injectivity of the text form: two different shapes never print the same text
            key = tm.strip(t)
            if s in seen_text and seen_text[s] != key:
                chk.fail(R, "ambiguous:" + label, "two different fragments print as %r" % s)
            else:
                seen_text[s] = key
                chk.ok(R)
                n_ok += 1
            if label.startswith("leaf:") or "[0]=t" in label:
                chk.sample("%s -> %s" % (label, s))
            if label.startswith("leaf:"):
                # `{:#}` has no meaning for a miniscript: it must not reach the leaf values' own Display impls, whose
                # alternate forms ("block-height 100", "0x..") are not the miniscript syntax
                try:
                    P_ = tm.printer_paths(F)
                    dt = [a for a in F.adts if a.endswith("display::DisplayTypes")][0]
                    fa = B.PyFmt(True)
                    m.call_path(P_["conditional_fmt"], [t, fa, Adt(dt, "None", {})])
                    sa = "".join(map(str, fa.out))
                    chk.obligation(R, sa == s, "alternate:" + label, "`{:#}` prints %r, `{}` prints %r (the former does not parse)" % (sa, s),
                                   where="src/miniscript/display.rs")
                except Unsupported as e:
                    chk.fail(R, "unanalysable:alternate:" + label, "unanalysable: %s" % e, where=e.where, kind="unanalysable")
            continue
        # attribute failures that are due to the raw-pubkey-hash fragment only
        key = label
        if contains_variant(t, "RawPkH"):
            t2 = replace_variant(t, "RawPkH", "PkH")
            try:
                _, st2, _ = round_trip(F, m, t2)
            except (Unsupported, Panic):
                st2 = "?"
            if st2 == "ok":
                bare = not label_has_checked_raw(t)
                key = "rawpkh-bare" if bare else "rawpkh-checked"
        chk.fail(R, key, "%s: %s (%s) text=%r" % (label, status, detail, s), where="src/miniscript/display.rs")
    chk.floor(R, "shapes round-tripped", n_ok, 600 if chk.tier == "quick" else 2000)
    chk.extra["R10.1_shapes"] = len(sh)


def label_has_checked_raw(t):
    """is every RawPkH in t directly under a Check?"""
    found = []

    def go(v, parent_check):
        if isinstance(v, Adt):
            if v.path == T and v.variant == "RawPkH":
                found.append(parent_check)
            pc = v.path == T and v.variant == "Check"
            for x in v.fields.values():
                if isinstance(x, Adt) and x.path == MS:
                    go(x.fields["node"], pc)
                else:
                    go(x, False)
        elif isinstance(v, PyVec):
            for x in v.items:
                go(x, False)
    go(t, False)
    return bool(found) and all(found)


# ---- R10.2 policies ---------------------------------------------------------------------------------------------

CP = "policy::concrete::Policy"
SP = "policy::semantic::Policy"


def pol(adt, variant, *fields):
    return Adt(adt, variant, {str(i): f for i, f in enumerate(fields)})


def policy_leaves(F, adt):
    a, r = ABS(F), REL(F)
    return {
        "Unsatisfiable": pol(adt, "Unsatisfiable"), "Trivial": pol(adt, "Trivial"), "Key": pol(adt, "Key", "KA"),
        "After": pol(adt, "After", Adt(a, "AbsLockTime", {"0": 1000})),
        "Older": pol(adt, "Older", Adt(r, "RelLockTime", {"0": 65535})),
        "Sha256": pol(adt, "Sha256", "HS"), "Hash256": pol(adt, "Hash256", "HD"),
        "Ripemd160": pol(adt, "Ripemd160", "HR"), "Hash160": pol(adt, "Hash160", "HH"),
    }


def policy_shapes(F, adt):
    lv = policy_leaves(F, adt)

    def P(i):
        return pol(adt, "Key", "K%d" % i)
    if adt == CP:
        def And(xs):
            return pol(adt, "And", PyVec(xs))

        def Or(xs, w=None):
            w = w or [1] * len(xs)
            return pol(adt, "Or", PyVec([(wi, x) for wi, x in zip(w, xs)]))
    else:
        def And(xs):
            return pol(adt, "Thresh", tm.thresh(len(xs), xs))

        def Or(xs, w=None):
            return pol(adt, "Thresh", tm.thresh(1, xs))

    def Th(k, xs):
        return pol(adt, "Thresh", tm.thresh(k, xs))
    comb = {"and": And([P(8), P(9)]), "or": Or([P(8), P(9)], [3, 1]), "thresh": Th(2, [P(7), P(8), P(9)])}
    if adt == CP:
        comb["thresh1"] = Th(1, [P(7)])
        comb["thresh_n"] = Th(3, [P(7), P(8), P(9)])
        comb["thresh_or"] = Th(1, [P(7), P(8)])
    else:
        comb["and3"] = And([P(7), P(8), P(9)])
        comb["or3"] = Or([P(7), P(8), P(9)])
    classes = dict(lv)
    classes.update(comb)
    out = [("leaf:" + k, v) for k, v in classes.items()]
    for cname, cv in classes.items():
        for pos in range(2):
            kids = [P(0), P(1)]
            kids[pos] = cv
            out.append(("and[%d]=%s" % (pos, cname), And(list(kids))))
            out.append(("or[%d]=%s" % (pos, cname), Or(list(kids), [2, 5])))
        for pos in range(3):
            kids = [P(0), P(1), P(2)]
            kids[pos] = cv
            out.append(("thresh[%d]=%s" % (pos, cname), Th(2, kids)))
    if adt == SP:
        out.append(("thresh-1-of-1", Th(1, [P(0)])))
    return out


def pstrip(v):
    if isinstance(v, Adt):
        return (v.path.split("::")[-1], v.variant, tuple((k, pstrip(x)) for k, x in sorted(v.fields.items())))
    if isinstance(v, PyVec):
        return tuple(pstrip(x) for x in v.items)
    if isinstance(v, tuple):
        return tuple(pstrip(x) for x in v)
    return v


def check_policy_roundtrip(chk, F, adt, tag):
    R = "R10.2"
    chk.rule(R, "concrete and semantic policies: parse(print(p)) == p and printing is a fixed point, for every "
                "variant and every child class in every position (n >= 2 sub-policies); evaluated from THIR")
    m = tm.parser_machine(F)
    ext_hooks(F, m)
    chk.saw(tm.from_tree_path(F, adt))
    n_ok = 0
    for label, p in policy_shapes(F, adt):
        key = "%s|%s" % (tag, label)
        try:
            out, r = tm.display(m, p)
            s = "".join(map(str, out))
            if not (isinstance(r, Adt) and r.variant == "Ok") or not all(isinstance(x, str) for x in out):
                chk.fail(R, key, "printing failed: %r %r" % (r, out))
                continue
            res = tm.parse_with(F, m, adt, s)
            if not (isinstance(res, Adt) and res.variant == "Ok"):
                chk.fail(R, key, "printed text %r does not parse: %s" % (s, repr(res)[:160]),
                         where="src/policy/%s.rs" % tag)
                continue
            back = res.fields["0"]
            if pstrip(back) != pstrip(p):
                chk.fail(R, key, "text %r parses back as %r" % (s, pstrip(back)), where="src/policy/%s.rs" % tag)
                continue
            out2, _ = tm.display(m, back)
            if "".join(map(str, out2)) != s:
                chk.fail(R, key, "printing is not a fixed point: %r then %r" % (s, "".join(map(str, out2))))
                continue
            chk.ok(R)
            n_ok += 1
            if label.startswith("leaf:"):
                chk.sample("%s %s -> %s" % (tag, label, s))
        except Unsupported as e:
            chk.fail(R, "unanalysable:" + key, "unanalysable: %s" % e, where=e.where, kind="unanalysable")
        except Panic as e:
            chk.fail(R, key, "panic while printing / parsing: %s" % e)
    chk.floor(R, "%s policy shapes" % tag, n_ok, 100)


# ---- R10.3 / R10.4 / R10.5 descriptors and checksum -------------------------------------------------------------

DESC = "descriptor::Descriptor"
STRING = "std::string::String"


def desc_machine(F):
    """strict machine with Pk = String (keys are their text), real typing / context checks, bech32 engine model"""
    m = Machine(F, strict=True)
    m.text_keys = True
    params = tm.install_bech32(F, m)
    ext_hooks(F, m)
    # the crate's own hash256::Hash (a hash_newtype! over sha256d, displayed forwards) is, like the foreign hash types, its
    # text: 64 hex digits
    from .. import builtins as B

    def h256(m_, a, c):
        t = B.deref(a[0])
        if isinstance(t, str) and len(t) == 64 and all(ch in "0123456789abcdefABCDEF" for ch in t):
            return B.ok(t.lower())
        return B.err(Term("HexToArrayError", t))
    m.hooks["<miniscript::hash256::Hash as std::str::FromStr>::from_str"] = h256
    return m, params


def desc_from_str(F, m, s):
    fs = [it["path"] for i in F.impls if i["trait"] == "std::str::FromStr" and i["self_adt"] == DESC
          for it in i["items"] if it["name"] == "from_str"]
    if len(fs) != 1:
        raise KeyError("FromStr for Descriptor")
    return m.call_callee({"def": fs[0], "resolved": fs[0], "name": "from_str", "targs": [STRING]}, [s])


def taptree_texts(maxleaves):
    """all binary tree shapes with 1..maxleaves leaves, as brace expressions over leaf names"""
    memo = {}

    def shapes_(n):
        if n in memo:
            return memo[n]
        if n == 1:
            r = ["*"]
        else:
            r = []
            for i in range(1, n):
                for a in shapes_(i):
                    for b in shapes_(n - i):
                        r.append("{%s,%s}" % (a, b))
        memo[n] = r
        return r
    out = []
    for n in range(1, maxleaves + 1):
        for sh in shapes_(n):
            cnt = [0]

            def leafname(_):
                cnt[0] += 1
                return "pk(L%d)" % cnt[0]
            import re
            out.append(re.sub(r"\*", leafname, sh))
    return out


def deep_taptree(depth, tail):
    """a comb of `depth`-2 levels ending in `tail` (a brace expression of height 2)"""
    s = tail
    for i in range(depth - 2):
        s = "{pk(D%d),%s}" % (i, s)
    return s


def descriptor_texts(tier):
    inner = ["pk(K)", "and_v(v:pk(A),older(7))", "or_d(pk(A),and_v(v:pkh(B),after(500000001)))",
             "thresh(2,pk(A),s:pk(B),sln:older(12))", "andor(pk(A),pk(B),and_v(v:pk(C),sha256(H)))"]
    out = []
    for ms in inner:
        out += ["wsh(%s)" % ms, "sh(wsh(%s))" % ms, "sh(%s)" % ms]
    out += ["pk(K)", "pkh(K)"]
    out += ["multi(1,A,B)", "sh(multi(2,A,B,C))", "wsh(multi(2,A,B,C))", "pkh(K)", "wpkh(K)", "sh(wpkh(K))",
            "sh(sortedmulti(1,A,B))", "wsh(sortedmulti(2,A,B,C))", "sh(wsh(sortedmulti(2,A,B,C)))", "tr(K)",
            "tr(K,multi_a(2,A,B,C))", "tr(K,sortedmulti_a(1,A,B))"]
    for t in taptree_texts(4 if tier == "quick" else 6):
        out.append("tr(K,%s)" % t)
    out.append("tr(K,{and_v(v:pk(A),older(7)),{pk(B),or_d(pk(C),pkh(D))}})")
    return out


def check_descriptor_roundtrip(chk, F):
    import bip380
    R = "R10.3"
    chk.rule(R, "descriptors of every kind (bare, pkh, wpkh, sh, wsh, sh-wsh, sh-wpkh, sortedmulti, tr with every "
                "tree shape up to N leaves and a depth-128 tree with several bottom pairs): Descriptor::from_str(text) "
                "prints back as text#checksum with the BIP-380 checksum, that text parses to an equal object, "
                "`{:#}` prints no checksum; evaluated from THIR with real typing and context checks")
    m, params = desc_machine(F)
    texts = descriptor_texts(chk.tier)
    deep = []
    if chk.tier != "quick":
        deep = ["tr(K,%s)" % deep_taptree(128, "{{pk(A),pk(B)},{pk(C),pk(D)}}"),
                "tr(K,{%s,%s})" % (deep_taptree(127, "{pk(A),pk(B)}"), deep_taptree(127, "{pk(C),pk(E)}"))]
    n_ok = 0
    for s in texts + deep:
        key = s if len(s) < 80 else "deep-taptree-%d" % (deep.index(s) if s in deep else 0)
        try:
            r = desc_from_str(F, m, s)
            if not (isinstance(r, Adt) and r.variant == "Ok"):
                chk.fail(R, key, "canonical text does not parse: %s" % repr(r)[:200])
                continue
            d = r.fields["0"]
            out, pr = tm.display(m, d)
            txt = "".join(map(str, out))
            want = s + "#" + bip380.descsum_create(s)
            if txt != want:
                chk.fail(R, key, "parsed descriptor prints as %r, expected %r" % (txt[:160], want[:160]),
                         where="src/descriptor")
                continue
            r2 = desc_from_str(F, m, txt)
            if not (isinstance(r2, Adt) and r2.variant == "Ok"):
                chk.fail(R, key, "printed text (with checksum) does not parse: %s" % repr(r2)[:200])
                continue
            if pstrip(r2.fields["0"]) != pstrip(d):
                chk.fail(R, key, "printed text parses to a different object", detail=[repr(pstrip(d))[:2000],
                                                                                      repr(pstrip(r2.fields["0"]))[:2000]])
                continue
            out3, _ = tm.display(m, d, alternate=True)
            if "".join(map(str, out3)) != s:
                chk.fail(R, key, "alternate form prints %r, expected the text without checksum"
                         % "".join(map(str, out3))[:160])
                continue
            chk.ok(R)
            n_ok += 1
            if len(s) < 60:
                chk.sample("%s -> %s" % (s, txt))
        except Unsupported as e:
            chk.fail(R, "unanalysable:" + key, "unanalysable: %s" % e, where=e.where, kind="unanalysable")
        except Panic as e:
            chk.fail(R, key, "panic while parsing / printing %r: %s" % (s[:80], e))
    chk.floor(R, "descriptor texts round-tripped", n_ok, 35)


SUGAR = [  # (sugared, plain) -- Miniscript specification, "syntactic sugar" table
    ("pk(K)", "c:pk_k(K)"), ("pkh(K)", "c:pk_h(K)"), ("t:sha256(H)", "and_v(sha256(H),1)"),
    ("l:sha256(H)", "or_i(0,sha256(H))"), ("u:sha256(H)", "or_i(sha256(H),0)"),
    ("and_n(sha256(H),sha256(G))", "andor(sha256(H),sha256(G),0)"),
    ("vc:pk_k(K)", "v:pk(K)"), ("tvc:pk_h(K)", "and_v(v:pkh(K),1)"),
]


def check_sugar(chk, F):
    R = "R10.1s"
    chk.rule(R, "aliases and sugar never change meaning: the sugared and the plain text parse to equal fragments "
                "(table from the Miniscript specification)")
    m = tm.parser_machine(F)
    ext_hooks(F, m)
    for a, b in SUGAR:
        ra, rb = tm.parse_miniscript(F, m, a), tm.parse_miniscript(F, m, b)
        good = all(isinstance(x, Adt) and x.variant == "Ok" for x in (ra, rb)) \
            and tm.strip(ra.fields["0"]) == tm.strip(rb.fields["0"])
        chk.obligation(R, good, a, "%r and %r do not parse to the same fragment: %s / %s"
                       % (a, b, repr(ra)[:120], repr(rb)[:120]))


def check_checksum_verify(chk, F):
    import bip380
    R = "R10.4"
    chk.rule(R, "verify_checksum accepts text#c exactly when c is the 8-character checksum of text: every single "
                "substitution inside the checksum by any printable character, every single substitution in the payload, "
                "wrong lengths and a missing checksum are rejected; text without `#` is returned unchanged")
    m, params = desc_machine(F)
    vc = F.fn("verify_checksum", file="descriptor/checksum.rs")
    chk.saw(vc, F.fn("input_unchecked", file="descriptor/checksum.rs"), F.fn("checksum_chars", file="descriptor/checksum.rs"))
    printable = [chr(i) for i in range(32, 127)]
    bodies = ["wsh(pk(K))", "raw(deadbeef)"] if chk.tier == "quick" else ["wsh(pk(K))", "raw(deadbeef)", "tr(K,{pk(A),pk(B)})"]

    def verdict(s):
        r = m.call_path(vc, [s])
        return r
    n = 0
    for body in bodies:
        cs = bip380.descsum_create(body)
        good = body + "#" + cs
        r = verdict(good)
        chk.obligation(R, isinstance(r, Adt) and r.variant == "Ok" and r.fields["0"] == body, "accept|" + body,
                       "the BIP-380 checksum %r is not accepted: %r" % (good, r))
        r = verdict(body)
        chk.obligation(R, isinstance(r, Adt) and r.variant == "Ok" and r.fields["0"] == body, "plain|" + body,
                       "text without checksum is not returned unchanged: %r" % (r,))
        for bad in (body + "#", body + "#" + cs[:7], body + "#" + cs + "q", body + "#" + cs + "#" + cs[:3]):
            r = verdict(bad)
            chk.obligation(R, isinstance(r, Adt) and r.variant == "Err", "length|" + body,
                           "malformed checksum accepted: %r" % bad)
        # substitutions inside the checksum: all 8 positions x all printable characters
        accepted = []
        for pos in range(8):
            for ch in printable:
                if ch == cs[pos] or ch == "#":
                    continue
                s = body + "#" + cs[:pos] + ch + cs[pos + 1:]
                r = verdict(s)
                n += 1
                if not (isinstance(r, Adt) and r.variant == "Err"):
                    accepted.append(s)
        chk.obligation(R, not accepted, "checksum-substitution|" + body,
                       "checksum with a substituted character accepted: %r" % accepted[:4],
                       where="src/descriptor/checksum.rs")
        # substitutions in the payload
        accepted = []
        alphabet = printable if chk.tier != "quick" else list("0123456789()[],'/*abcdefgh@:$%{}") + ["K", "P", "~", " "]
        for pos in range(len(body)):
            for ch in alphabet:
                if ch == body[pos] or ch == "#":
                    continue
                s = body[:pos] + ch + body[pos + 1:] + "#" + cs
                r = verdict(s)
                n += 1
                if not (isinstance(r, Adt) and r.variant == "Err"):
                    accepted.append(s)
        chk.obligation(R, not accepted, "payload-substitution|" + body,
                       "payload with a substituted character accepted: %r" % accepted[:4],
                       where="src/descriptor/checksum.rs")
    chk.extra["R10.4_strings_evaluated"] = n


def check_checksum_constants(chk, F):
    import bip380
    from .. import constval
    R = "R10.5"
    chk.rule(R, "checksum constants (generator, length, target residue, input alphabet and its inverse CHAR_MAP) equal "
                "BIP-380; the character -> symbol expansion (low 5 bits per character, one class symbol per 3 "
                "characters, partial last group) equals descsum_expand for every character in every group position "
                "and every group length; computed checksums equal descsum_create")
    params = tm.checksum_params(F)
    chk.obligation(R, params["GENERATOR_SH"] == bip380.GENERATOR, "GENERATOR_SH",
                   "generator %r differs from BIP-380" % (params["GENERATOR_SH"],), where="src/descriptor/checksum.rs")
    chk.obligation(R, params["CHECKSUM_LENGTH"] == bip380.CHECKSUM_LENGTH, "CHECKSUM_LENGTH", "checksum length differs")
    chk.obligation(R, params["TARGET_RESIDUE"] == bip380.TARGET_RESIDUE, "TARGET_RESIDUE", "target residue differs")
    cl = F.consts.get("descriptor::checksum::CHECKSUM_LENGTH")
    chk.obligation(R, cl is not None and constval.parse(cl["value"]) == 8, "CHECKSUM_LENGTH const", "module constant differs")
    ic = [k for k in F.consts if k.endswith("INPUT_CHARSET")]
    chk.obligation(R, len(ic) >= 1, "INPUT_CHARSET", "INPUT_CHARSET constant not found")
    for k in ic:
        v = constval.parse(F.consts[k]["value"])
        chk.obligation(R, v == bip380.INPUT_CHARSET, k, "input alphabet %r differs from BIP-380" % (v,))
    cm = constval.parse(F.consts["descriptor::checksum::CHAR_MAP"]["value"])
    cm = list(cm.items) if isinstance(cm, PyVec) else list(cm)
    want = [bip380.INPUT_CHARSET.index(chr(32 + i)) for i in range(95)]
    chk.obligation(R, cm == want, "CHAR_MAP", "CHAR_MAP is not the inverse of the BIP-380 input alphabet",
                   where="src/descriptor/checksum.rs")
    # transducer: evaluate Engine::input + checksum_chars on strings covering every character in every position
    m, _ = desc_machine(F)
    new = F.fn("new", file="descriptor/checksum.rs", container="Engine")
    inp = F.fn("input", file="descriptor/checksum.rs", container="Engine")
    cc = F.fn("checksum_chars", file="descriptor/checksum.rs")
    strings = []
    cs = bip380.INPUT_CHARSET
    pads = [cs[0], cs[40], cs[70]]      # one character of each class
    for i, ch in enumerate(cs):
        for pos in range(3):
            g = [pads[(i + 1) % 3], pads[(i + 2) % 3], pads[i % 3]]
            g[pos] = ch
            strings.append("".join(g))
    for a in pads:                          # all 27 class combinations, and partial groups
        strings.append(a)
        for b in pads:
            strings.append(a + b)
            for c in pads:
                strings.append(a + b + c)
                strings.append("xyz" + a + b + c + a)
    strings += ["", cs, cs[::-1], "wsh(pk(K))"]
    bad = []
    for s in strings:
        eng = m.call_path(new, [])
        r = m.call_path(inp, [eng, s])
        chars = m.call_path(cc, [eng])
        got = "".join(chars.items)
        e = m.bech32_engines[-1]
        want_syms = bip380.descsum_expand(s)
        fed = e.fed[:len(want_syms)]
        if fed != want_syms or got != bip380.descsum_create(s):
            bad.append((s, got, bip380.descsum_create(s)))
    chk.obligation(R, not bad, "transducer", "symbol expansion / checksum differs from BIP-380 on %r" % (bad[:3],),
                   where="src/descriptor/checksum.rs")
    chk.extra["R10.5_strings"] = len(strings)
    chk.floor(R, "transducer strings", len(strings), 300)


# ---- R10.6 taproot tree builder / brace printer -----------------------------------------------------------------

def brace_events(text):
    """pre-order events of a brace expression over single-token leaves: ('{',) | ('leaf', name);
    and the specification depths of the leaves"""
    events, depths = [], []
    depth = 0
    tok = ""
    for ch in text:
        if ch == "{":
            events.append(("{",))
            depth += 1
        elif ch in ",}":
            if tok:
                events.append(("leaf", tok))
                depths.append((depth, tok))
                tok = ""
            if ch == "}":
                depth -= 1
        else:
            tok += ch
    if tok:
        events.append(("leaf", tok))
        depths.append((depth, tok))
    return events, depths


def brace_shapes(maxleaves):
    out = []
    for t in taptree_texts(maxleaves):
        import re
        out.append(re.sub(r"pk\((L\d+)\)", r"\1", t))
    return out


def comb(depth, tail, side="right"):
    s = tail
    for i in range(depth):
        s = "{X%d,%s}" % (i, s) if side == "right" else "{%s,X%d}" % (s, i)
    return s


def check_taptree_builder(chk, F):
    R = "R10.6"
    chk.rule(R, "TapTreeBuilder (push_inner_node on `{`, push_leaf on a leaf, in pre-order) records every leaf at its "
                "brace depth, for every tree shape up to N leaves and for combs reaching depth 127/128 with one, two and "
                "three bottom pairs on either side; depth 129 is refused; TapTree Display prints the same braces back")
    m = Machine(F, strict=True)
    m.text_keys = True
    new = F.fn("new", file="tr/taptree.rs", container="TapTreeBuilder")
    pin = F.fn("push_inner_node", file="tr/taptree.rs")
    pl = F.fn("push_leaf", file="tr/taptree.rs")
    fin = F.fn("finalize", file="tr/taptree.rs", container="TapTreeBuilder")
    chk.saw(new, pin, pl, fin, F.fn("fmt_helper", file="tr/taptree.rs"))
    ARC = "std::sync::Arc<miniscript::private::Miniscript<std::string::String, miniscript::context::Tap>>"
    texts = brace_shapes(5 if chk.tier == "quick" else 7)
    P2 = "{A,B}"
    P4 = "{{A,B},{C,D}}"
    P6 = "{{A,B},{{C,D},E}}"
    texts += [comb(126, P2), comb(127, P2), comb(126, P4), comb(126, P2, "left"), comb(127, P2, "left"),
              comb(126, P4, "left"), comb(125, P6), comb(125, "{%s,%s}" % (P4, P4)),
              "{%s,%s}" % (comb(126, P2), comb(126, "{C,E}", "left")),
              "{%s,%s}" % (comb(125, P4), comb(125, "{{E,F},{G,H}}", "left")),
              comb(100, "{%s,%s}" % (comb(26, P2), comb(25, P4, "left")))]
    n_ok = 0
    for text in texts:
        key = text if len(text) < 60 else "deep:%d:%s" % (len(text), text[-28:])
        events, want = brace_events(text)
        try:
            b = m.call_path(new, [])
            failed = None
            for ev in events:
                if ev[0] == "{":
                    r = m.call_path(pin, [b])
                    if not (isinstance(r, Adt) and r.variant == "Ok"):
                        failed = "push_inner_node refused at a legal depth: %r" % (r,)
                        break
                else:
                    m.call_callee({"def": pl, "name": "push_leaf", "targs": [STRING, ARC]}, [b, ev[1]])
            if failed:
                chk.fail(R, key, failed, where="src/descriptor/tr/taptree.rs")
                continue
            tree = m.call_path(fin, [b])
            got = [(d, leaf) for (d, leaf) in tree.fields["depths_leaves"].items]
            if got != want:
                diff = [(i, g, w) for i, (g, w) in enumerate(zip(got, want)) if g != w][:3]
                chk.fail(R, key, "leaf depths differ from the brace structure: (index, got, want) %r" % (diff,),
                         where="src/descriptor/tr/taptree.rs")
                continue
            out, r = tm.display(m, tree)
            txt = "".join(map(str, out))
            if txt != text:
                chk.fail(R, key, "TapTree prints %r..., expected the same braces" % txt[:80],
                         where="src/descriptor/tr/taptree.rs")
                continue
            chk.ok(R)
            n_ok += 1
        except Unsupported as e:
            chk.fail(R, "unanalysable:" + key, "unanalysable: %s" % e, where=e.where, kind="unanalysable")
        except Panic as e:
            chk.fail(R, key, "panic in the builder / printer: %s" % e, where="src/descriptor/tr/taptree.rs")
    # depth 129 must be refused
    b = m.call_path(new, [])
    r = None
    for i in range(129):
        r = m.call_path(pin, [b])
    chk.obligation(R, isinstance(r, Adt) and r.variant == "Err", "depth-129", "a 129th nesting level is accepted: %r" % (r,))
    chk.floor(R, "brace shapes", n_ok, 30)


# ---- R10.7 descriptor key expressions ---------------------------------------------------------------------------

DPK = "descriptor::key::DescriptorPublicKey"
CHILD = "bitcoin::bip32::ChildNumber"


def key_machine(F):
    """rust-bitcoin key / bip32 types modelled structurally: keys by their text, a fingerprint by its 4 bytes, a child
    number by (index, hardened), a derivation path by the list of its child numbers"""
    from ..builtins import deref, PyFmt, FMT_OK
    m = Machine(F, strict=True, max_depth=80)
    h = m.hooks
    HEX = "0123456789abcdefABCDEF"

    def fp_from_hex(m_, a, c):
        s = deref(a[0])
        if len(s) == 8 and all(ch in HEX for ch in s):
            return ok(PyVec([int(s[i:i + 2], 16) for i in range(0, 8, 2)]))
        return err(Term("HexError", s))
    h["bitcoin::bip32::Fingerprint::from_hex"] = fp_from_hex
    h["bitcoin::bip32::Fingerprint::as_bytes"] = lambda m_, a, c: deref(a[0])

    def child_from_str(m_, a, c):
        s = deref(a[0])
        hard = s.endswith("'") or s.endswith("h")
        body = s[:-1] if hard else s
        if body and all("0" <= ch <= "9" for ch in body) and int(body) < 2**31:
            return ok(Adt(CHILD, "Hardened" if hard else "Normal", {"index": int(body)}))
        return err(Term("Bip32Error", s))
    h["<bitcoin::bip32::ChildNumber as std::str::FromStr>::from_str"] = child_from_str

    def path_collect(v):
        return PyVec(list(v))
    h["<bitcoin::bip32::DerivationPath as std::default::Default>::default"] = lambda m_, a, c: PyVec([])
    h["std::default::Default::default"] = lambda m_, a, c: PyVec([]) if "DerivationPath" in (c.get("self_ty") or "") \
        else __import__("msverif.builtins", fromlist=["x"])._default(m_, a, c)
    h["bitcoin::bip32::DerivationPath::len"] = lambda m_, a, c: len(deref(a[0]).items)
    h["bitcoin::bip32::DerivationPath::is_empty"] = lambda m_, a, c: not deref(a[0]).items

    def xkey_from_str(prefixes):
        def f(m_, a, c):
            s = deref(a[0])
            if s[:4] in prefixes and len(s) == 111 and all(ch.isalnum() for ch in s):
                return ok(("xkey", s))
            return err(Term("XKeyError", s))
        return f
    h["<bitcoin::bip32::Xpub as std::str::FromStr>::from_str"] = xkey_from_str(("xpub", "tpub"))
    h["<bitcoin::bip32::Xpriv as std::str::FromStr>::from_str"] = xkey_from_str(("xprv", "tprv"))

    def pk_from_str(m_, a, c):
        s = deref(a[0])
        if len(s) in (66, 130) and all(ch in HEX for ch in s) and ((len(s) == 66 and s[:2] in ("02", "03")) or
                                                                   (len(s) == 130 and s[:2] == "04")):
            return ok(("pk", s.lower()))
        return err(Term("KeyError", s))
    h["<bitcoin::PublicKey as std::str::FromStr>::from_str"] = pk_from_str

    def xonly_from_str(m_, a, c):
        s = deref(a[0])
        if len(s) == 64 and all(ch in HEX for ch in s):
            return ok(("xonly", s.lower()))
        return err(Term("KeyError", s))
    h["<bitcoin::XOnlyPublicKey as std::str::FromStr>::from_str"] = xonly_from_str
    h["<bitcoin::secp256k1::XOnlyPublicKey as std::str::FromStr>::from_str"] = xonly_from_str
    m.key_display = True
    return m


def _key_fmt_value(orig):
    from .. import builtins as B

    def fmt_value(m, kind, x, f):
        x = B.deref(x)
        if getattr(m, "key_display", False):
            if isinstance(x, tuple) and len(x) == 2 and x[0] in ("xkey", "pk", "xonly"):
                f.out.append(x[1])
                return B.FMT_OK
            if isinstance(x, Adt) and x.path == CHILD:
                f.out.append("%d%s" % (x.fields["index"], "'" if x.variant == "Hardened" else ""))
                return B.FMT_OK
        return orig(m, kind, x, f)
    return fmt_value


XPUB = "xpub" + "A1b2C3d4E5" * 10 + "ZZZZZZZ"
PK33 = "02" + "ab" * 32
PK65 = "04" + "cd" * 64
XONLY = "ef" * 32


def key_texts():
    origins = ["", "[deadbeef]", "[deadbeef/0'/1/2147483647']", "[00000000/44'/0'/0']"]
    out = []
    for o in origins:
        out += [o + PK33, o + PK65, o + XONLY]
        for path in ("", "/0", "/0'/1", "/1/2/3'/4"):
            for wc in ("", "/*", "/*h"):
                out.append(o + XPUB + path + wc)
        for mp in ("/<0;1>", "/0/<0;1;2>/5", "/<0';1'>/9", "/7'/<3;4>", "/<0;1>/*", "/1/<5;6;7>/2/*h"):
            out.append(o + XPUB + mp)
    return out


def key_noncanonical():
    """accepted spellings that print differently (hardened `h`): parse -> print -> parse must be stable"""
    return ["[deadbeef/0h/1h]" + PK33, XPUB + "/0h/1", XPUB + "/3/*'", XPUB + "/<0h;1h>/*h", "[DEADBEEF/1]" + XPUB + "/2",
            ]


def key_rejected():
    """a multipath step with a repeated index cannot be printed distinguishably: it must not be accepted"""
    return [XPUB + "/<0;0;1>", XPUB + "/<1;1>", XPUB + "/<0;1;0>/*", "[deadbeef/1']" + XPUB + "/2/<7';7'>"]


def check_key_expressions(chk, F):
    from .. import builtins as B
    R = "R10.7"
    chk.rule(R, "descriptor public keys: for single keys (compressed, uncompressed, x-only) and extended keys with every "
                "combination of origin, derivation path, multipath step and wildcard, parse(text) prints back as text and "
                "the printed text parses to an equal key; accepted non-canonical spellings reach a fixed point after one "
                "round trip")
    fs = [it["path"] for i in F.impls if i["trait"] == "std::str::FromStr" and i["self_adt"] == DPK
          for it in i["items"] if it["name"] == "from_str"]
    if len(fs) != 1:
        raise KeyError("FromStr for DescriptorPublicKey")
    chk.saw(fs[0], F.fn("parse_xkey_deriv", file="descriptor/key.rs"), F.fn("parse_key_origin", file="descriptor/key.rs"),
            F.fn("fmt_derivation_paths", file="descriptor/key.rs"))
    m = key_machine(F)
    orig = B.fmt_value
    B.fmt_value = _key_fmt_value(orig)
    # DerivationPath: collect / iteration / indexing on the list model
    saved_collect = B.TRAIT_TABLE[("std::iter::Iterator", "collect")]
    try:
        n_ok = 0
        for canonical, texts in ((True, key_texts()), (False, key_noncanonical())):
            for s in texts:
                key = s.replace(XPUB, "XPUB").replace(PK33, "PK33").replace(PK65, "PK65").replace(XONLY, "XONLY")
                try:
                    r = m.call_path(fs[0], [s])
                    if r.variant != "Ok":
                        chk.fail(R, key, "key expression does not parse: %s" % repr(r)[:160], where="src/descriptor/key.rs")
                        continue
                    k1 = r.fields["0"]
                    out, _ = tm.display(m, k1)
                    t1 = "".join(map(str, out))
                    if canonical and t1 != s:
                        chk.fail(R, key, "prints as %r" % t1.replace(XPUB, "XPUB")[:160], where="src/descriptor/key.rs")
                        continue
                    r2 = m.call_path(fs[0], [t1])
                    if r2.variant != "Ok" or pstrip(r2.fields["0"]) != pstrip(k1):
                        chk.fail(R, key, "printed form %r parses to a different key (%s)"
                                 % (t1.replace(XPUB, "XPUB")[:120], r2.variant), where="src/descriptor/key.rs",
                                 detail=[repr(pstrip(k1))[:600], repr(pstrip(r2.fields["0"]))[:600] if r2.variant == "Ok" else repr(r2)[:300]])
                        continue
                    out2, _ = tm.display(m, r2.fields["0"])
                    if "".join(map(str, out2)) != t1:
                        chk.fail(R, key, "printing is not a fixed point after one round trip", where="src/descriptor/key.rs")
                        continue
                    chk.ok(R)
                    n_ok += 1
                except Unsupported as e:
                    chk.fail(R, "unanalysable:" + key, "unanalysable: %s" % e, where=e.where, kind="unanalysable")
                except Panic as e:
                    chk.fail(R, key, "panic: %s" % e, where="src/descriptor/key.rs")
        for s in key_rejected():
            key = s.replace(XPUB, "XPUB")
            try:
                r = m.call_path(fs[0], [s])
                chk.obligation(R, r.variant == "Err", "reject|" + key, "a multipath step with a repeated index is accepted "
                               "(its paths cannot be told apart when printed)", where="src/descriptor/key.rs")
            except Unsupported as e:
                chk.fail(R, "unanalysable:" + key, "unanalysable: %s" % e, where=e.where, kind="unanalysable")
        chk.floor(R, "key expressions", n_ok, 85)
    finally:
        B.fmt_value = orig
        B.TRAIT_TABLE[("std::iter::Iterator", "collect")] = saved_collect


# ---- R10.8 wallet policies (BIP-388 templates) ---------------------------------------------------------------------------

def check_wallet_policy(chk, F):
    from .. import builtins as B
    from . import c16
    import re
    R = "R10.8"
    chk.rule(R, "wallet-policy text forms: a key placeholder @i/<M;N>/* (any M < N, also of different digit counts; /** for "
                "<0;1>) and a whole template parse, print back as the canonical text, and that text parses to an equal value "
                "and prints the same; a full descriptor turns into its template (keys replaced by @i placeholders in order of "
                "first occurrence) and back into the same descriptor")
    KX = "descriptor::wallet_policy::key_expression::KeyExpression"
    WP = "descriptor::wallet_policy::WalletPolicy"
    try:
        kfs = [it["path"] for i in F.impls if i["trait"] == "std::str::FromStr" and i["self_adt"] == KX
               for it in i["items"] if it["name"] == "from_str"][0]
        wfs = [it["path"] for i in F.impls if i["trait"] == "std::str::FromStr" and i["self_adt"] == WP
               for it in i["items"] if it["name"] == "from_str"][0]
        into = [q for q in F.fns if q.endswith("WalletPolicy::into_descriptor")][0]
    except IndexError:
        chk.fail(R, "anchor", "KeyExpression / WalletPolicy FromStr or into_descriptor not found", kind="unanalysable")
        return
    chk.saw(kfs, wfs, into)
    m, _params = desc_machine(F)
    km = key_machine(F)
    for k, v in km.hooks.items():
        m.hooks.setdefault(k, v)
    c16.derivation_hooks(m)
    m.key_display = True
    m.max_depth = 160
    orig = B.fmt_value
    B.fmt_value = _key_fmt_value(orig)

    def show(v):
        out, _ = tm.display(m, v)
        return "".join(map(str, out))

    def canon(t):
        return t.replace("<0;1>/*", "**")
    n = 0
    try:
        for idx in (0, 3, 12):
            for a, b in ((0, 1), (0, 2), (2, 3), (9, 10), (2, 10), (2, 100), (99, 100), (10, 11), (5, 2147483647)):
                t = "@%d/<%d;%d>/*" % (idx, a, b)
                n += 1
                try:
                    r = m.call_path(kfs, [t])
                    if r.variant != "Ok":
                        chk.fail(R, "key|" + t, "the placeholder %s does not parse: %s" % (t, repr(r)[:160]),
                                 where="src/descriptor/wallet_policy/key_expression.rs")
                        continue
                    p1 = show(r.fields["0"])
                    r2 = m.call_path(kfs, [p1])
                    good = p1 == canon(t) and r2.variant == "Ok" and pstrip(r2.fields["0"]) == pstrip(r.fields["0"]) and \
                        show(r2.fields["0"]) == p1
                    chk.obligation(R, good, "key|" + t, "%s prints as %s, which parses to %s" % (t, p1, repr(r2)[:120]),
                                   where="src/descriptor/wallet_policy/key_expression.rs")
                except (Unsupported, Panic) as e:
                    chk.fail(R, "key|" + t, "%s on %s" % (e, t), kind="unanalysable" if isinstance(e, Unsupported) else "violation")
        templates = ["wpkh(@0/**)", "pkh(@0/<2;3>/*)", "sh(wpkh(@0/**))", "wsh(multi(2,@0/**,@1/<2;3>/*))",
                     "sh(wsh(sortedmulti(1,@0/<0;1>/*,@1/**)))", "tr(@0/**,{pk(@1/<9;10>/*),pk(@2/**)})",
                     "wsh(multi(2,@0/**,@0/<2;3>/*))", "wsh(and_v(v:pk(@0/**),or_d(pk(@1/<99;100>/*),older(12))))",
                     "tr(@0/<2;100>/*,multi_a(2,@1/**,@2/<10;11>/*))", "sh(multi(1,@0/**,@1/**))"]
        for t in templates:
            n += 1
            try:
                r = m.call_path(wfs, [t])
                if r.variant != "Ok":
                    chk.fail(R, "template|" + t, "the template does not parse: %s" % repr(r)[:160], where="src/descriptor/wallet_policy/mod.rs")
                    continue
                p1 = show(r.fields["0"])
                r2 = m.call_path(wfs, [p1])
                good = p1 == canon(t) and r2.variant == "Ok" and pstrip(r2.fields["0"]) == pstrip(r.fields["0"]) and show(r2.fields["0"]) == p1
                chk.obligation(R, good, "template|" + t, "%s prints as %s, which parses to %s" % (t, p1, repr(r2)[:120]),
                               where="src/descriptor/wallet_policy/mod.rs")
            except (Unsupported, Panic) as e:
                chk.fail(R, "template|" + t, "%s on %s" % (e, t), kind="unanalysable" if isinstance(e, Unsupported) else "violation")
        XP = [XPUB, XPUB.replace("A1", "B7"), XPUB.replace("A1", "C9")]
        descs = ["wpkh(K0/<0;1>/*)", "wsh(multi(2,K0/<0;1>/*,K1/<9;10>/*))", "tr(K0/<0;1>/*,{pk(K1/<2;100>/*),pk(K2/<0;1>/*)})",
                 "sh(wsh(sortedmulti(1,K0/<99;100>/*,K1/<0;1>/*)))", "wsh(and_v(v:pk(K0/<0;1>/*),or_d(pk(K1/<3;4>/*),older(12))))"]
        for d in descs:
            n += 1
            full = d
            for i, x in enumerate(XP):
                full = full.replace("K%d" % i, x)
            want_t = canon(re.sub(r"K(\d)", lambda mo: "@" + mo.group(1), d))
            try:
                r = m.call_path(wfs, [full])
                if r.variant != "Ok":
                    chk.fail(R, "descriptor|" + d, "the descriptor is not turned into a wallet policy: %s" % repr(r)[:160],
                             where="src/descriptor/wallet_policy/mod.rs")
                    continue
                p1 = show(r.fields["0"])
                back = m.call_path(into, [dcopy(r.fields["0"])])
                bt = None
                if back.variant == "Ok":
                    out, _ = tm.display(m, back.fields["0"], alternate=True)
                    bt = "".join(map(str, out))
                good = p1 == want_t and bt == full
                chk.obligation(R, good, "descriptor|" + d, "template %s (expected %s); back to the descriptor: %s" % (
                    p1, want_t, "the same" if bt == full else repr(bt)[:200]), where="src/descriptor/wallet_policy/mod.rs")
            except (Unsupported, Panic) as e:
                chk.fail(R, "descriptor|" + d, "%s on %s" % (e, d), kind="unanalysable" if isinstance(e, Unsupported) else "violation")
        # descriptors whose keys are not of the BIP-388 form (/<M;N>/* with M < N, or /**): turning one into a wallet policy
        # must either be refused or give a policy whose text parses back to it
        odd = ["wpkh(K0/5/<0;1>/*)", "wpkh(K0/0/*)", "wpkh(K0/<0;1>/*h)", "wpkh(K0/<0;1;2>/*)", "wpkh(K0/<1;0>/*)", "wpkh(K0/<0;1>/7/*)"]
        for d in odd:
            n += 1
            full = d.replace("K0", XP[0])
            try:
                r = m.call_path(wfs, [full])
                if r.variant != "Ok":
                    chk.ok(R)
                    continue
                p1 = show(r.fields["0"])
                r2 = m.call_path(wfs, [p1])
                good = r2.variant == "Ok" and show(r2.fields["0"]) == p1
                chk.obligation(R, good, "odd-descriptor|" + d, "WalletPolicy::from_str(%s) is accepted and prints as %s, which %s"
                               % (d, p1, "parses" if r2.variant == "Ok" else "WalletPolicy::from_str refuses: " + repr(r2)[:100]),
                               where="src/descriptor/wallet_policy/mod.rs")
            except (Unsupported, Panic) as e:
                chk.fail(R, "odd-descriptor|" + d, "%s on %s" % (e, d), kind="unanalysable" if isinstance(e, Unsupported) else "violation")
    finally:
        B.fmt_value = orig
    chk.floor(R, "wallet-policy texts", n, 46)


# ---- R10.10 descriptors with secret keys ---------------------------------------------------------------------------------

def string_key_hooks(m):
    """`impl MiniscriptKey for String` (the trait's defaults) for calls made through an unresolved T::TargetPk"""
    from .. import builtins as B
    for nm, v in (("is_x_only_key", False), ("is_uncompressed", False), ("num_der_paths", 0)):
        m.hooks["MiniscriptKey::" + nm] = (lambda v_: lambda m_, a, c: v_ if isinstance(B.deref(a[0]), str) else B.NOT_HANDLED)(v)


def check_secret_descriptors(chk, F):
    import hashlib
    from .. import builtins as B
    from . import c16
    R = "R10.10"
    chk.rule(R, "descriptors whose keys are secret key expressions: Descriptor::parse_descriptor splits the text into the public "
                "descriptor and a key map, the public descriptor is the text with every secret key replaced by its public "
                "counterpart (C16 R16.8), and to_string_with_secret puts exactly the original secret expressions back: the text "
                "round-trips; public keys in the same descriptor are left as they are")
    pd = [q for q in F.fns if q.endswith("Descriptor::<descriptor::key::DescriptorPublicKey>::parse_descriptor")]
    ts = [q for q in F.fns if q.endswith("Descriptor::<descriptor::key::DescriptorPublicKey>::to_string_with_secret")]
    if len(pd) != 1 or len(ts) != 1:
        chk.fail(R, "anchor", "Descriptor::parse_descriptor / to_string_with_secret not found", kind="unanalysable")
        return
    chk.saw(pd[0], ts[0])
    m, _params = desc_machine(F)
    km = key_machine(F)
    for k, v in km.hooks.items():
        m.hooks.setdefault(k, v)
    c16.derivation_hooks(m)
    string_key_hooks(m)
    m.key_display = True
    m.max_depth = 160

    def fake(prefix, what):
        d = hashlib.sha256(repr(what).encode()).hexdigest()
        return prefix + (d * 2)[:107]
    # public counterparts as texts of the right shape, so that they print and parse like any extended public key
    m.hooks["bitcoin::bip32::Xpub::from_priv"] = lambda m_, a, c: ("xkey", fake("xpub", B.deref(a[1])))
    m.hooks["bitcoin::bip32::Xpriv::fingerprint"] = lambda m_, a, c: PyVec(list(hashlib.sha256(repr(B.deref(a[0])).encode()).digest()[:4]))
    XPRV = "xprv" + XPUB[4:]
    X2 = XPUB.replace("A1", "B7")
    texts = ["wpkh(%s/0/*)" % XPRV, "pkh(%s)" % XPRV, "sh(wpkh([deadbeef/1']%s/2/*))" % XPRV, "wsh(multi(2,%s/1'/*,%s/2/*))" % (XPRV, X2),
             "wsh(multi(2,%s/2/*,%s/1'/3/*))" % (X2, XPRV), "tr(%s/<0;1>/*,pk(%s/7'/<2;3>/*))" % (X2, XPRV),
             "tr(%s/0'/1'/*,{pk(%s/1/*),pk(%s/5'/*h)})" % (XPRV, X2, XPRV.replace("A1", "C9")),
             "sh(wsh(and_v(v:pk(%s/0'/*),older(9))))" % XPRV, "wsh(pk(%s/0/*))" % X2,
             # hash fragments go through the key-map translators unchanged
             "wsh(and_v(v:pk(%s/0/*),sha256(%s)))" % (XPRV, "ab" * 32), "wsh(and_v(v:pk(%s/1'/*),hash256(%s)))" % (XPRV, "cd" * 32),
             "tr(%s/3/*,and_v(v:pk(%s/4'/*),hash160(%s)))" % (X2, XPRV, "12" * 20),
             "sh(and_v(v:pk(%s),ripemd160(%s)))" % (XPRV, "ef" * 20)]
    orig = B.fmt_value
    B.fmt_value = _key_fmt_value(orig)
    n = 0
    try:
        for t in texts:
            key = t.replace(XPRV, "XPRV").replace(X2, "X2")
            n += 1
            try:
                r = m.call_path(pd[0], [Term("secp"), t])
                if r.variant != "Ok":
                    chk.fail(R, key, "the descriptor does not parse: %s" % repr(r)[:200], where="src/descriptor/mod.rs")
                    continue
                d, kmap = r.fields["0"]
                out, _ = tm.display(m, d, alternate=True)
                pub = "".join(map(str, out))
                back = B.deref(m.call_path(ts[0], [d, kmap]))
                bad = []
                if "prv" in pub:
                    bad.append("the public descriptor still shows a private key: %s" % pub[:120])
                if not isinstance(back, str) or back.split("#")[0] != t:
                    bad.append("to_string_with_secret gives %s" % (repr(back)[:300].replace(XPRV, "XPRV").replace(X2, "X2"),))
                if X2 in t and X2 not in pub:
                    bad.append("a public key of the text is missing from the public descriptor")
                chk.obligation(R, not bad, key, "; ".join(bad)[:800], where="src/descriptor/mod.rs")
            except Unsupported as e:
                chk.fail(R, "unanalysable:" + key, "unanalysable: %s" % e, where=e.where, kind="unanalysable")
                break
            except Panic as e:
                chk.fail(R, key, "panic: %s" % e, where="src/descriptor/mod.rs")
    finally:
        B.fmt_value = orig
    chk.floor(R, "descriptors with secret keys", n, 9)


def run(chk):
    F = chk.facts()
    chk.explanation = __doc__
    chk.trusted = ["rustc THIR as dumped by factgen", "msverif THIR evaluator and its std models (strings, fmt, ranges)",
                   "generic tree iterators of src/iter/tree.rs (modelled; verbose_pre_order_iter evaluated from source)",
                   "rust-bitcoin lock-time Display prints the consensus integer",
                   "key / hash types: Display and FromStr are inverse (generic parameter)"]
    chk.guard("R10.1", "miniscript", check_miniscript_roundtrip, chk, F) if not ONLY or "1" in ONLY else None
    if not ONLY or "2" in ONLY:
        chk.guard("R10.2", "concrete", check_policy_roundtrip, chk, F, CP, "concrete")
    if not ONLY or "2" in ONLY:
        chk.guard("R10.2", "semantic", check_policy_roundtrip, chk, F, SP, "semantic")
    tm.sys_path_spec()
    import bip380
    bip380.selftest()
    if not ONLY or "s" in ONLY:
        chk.guard("R10.1s", "sugar", check_sugar, chk, F)
    if not ONLY or "3" in ONLY:
        chk.guard("R10.3", "descriptors", check_descriptor_roundtrip, chk, F)
    if not ONLY or "4" in ONLY:
        chk.guard("R10.4", "verify_checksum", check_checksum_verify, chk, F)
    if not ONLY or "5" in ONLY:
        chk.guard("R10.5", "constants", check_checksum_constants, chk, F)
    if not ONLY or "6" in ONLY:
        chk.guard("R10.6", "taptree", check_taptree_builder, chk, F)
    if not ONLY or "7" in ONLY:
        chk.guard("R10.7", "keys", check_key_expressions, chk, F)
    if not ONLY or "8" in ONLY:
        chk.guard("R10.8", "wallet-policy", check_wallet_policy, chk, F)
    if not ONLY or "9" in ONLY:
        from . import c16
        chk.guard("R10.9", "secret-key-texts", c16.check_secret_keys, chk, F, "R16.8", "R10.9")
        chk.guard("R10.10", "secret-descriptors", check_secret_descriptors, chk, F)
        from . import wholedesc
        chk.guard("R10.11", "wrapper-parsers", wholedesc.check_wrapper_parsers, chk, F, "R10.11")
        chk.guard("R10.12", "constructed-roundtrip", wholedesc.check_constructed_roundtrip, chk, F, "R10.12")
