"""C05 -- fragment typing equals the Miniscript specification's tables.

Exhaustive: every typing rule is evaluated (from its typed syntax tree) on its
complete finite input domain and compared cell by cell with spec/types.py.
"""

import itertools
import sys
import os

from ..interp import Machine, Adt, Term, PyIter, Panic, explore, RESULT
from ..report import Unsupported
from .. import symx

sys.path.insert(0, os.path.join(os.path.dirname(__file__), "..", ".."))
from spec import types as spec  # noqa: E402

LEVEL = "proof"

CP = "miniscript::types::correctness::"
MP = "miniscript::types::malleability::"
TP = "miniscript::types::"

BASES = ["B", "K", "V", "W"]
INPUTS = ["Zero", "One", "Any", "OneNonZero", "AnyNonZero"]
DISSATS = ["None", "Unique", "Unknown"]


def mk_corr(b, i, d, u):
    return Adt(CP + "Correctness", "Correctness",
               {"base": Adt(CP + "Base", b), "input": Adt(CP + "Input", i), "dissatisfiable": d, "unit": u})


def mk_mall(ds, s, m):
    return Adt(MP + "Malleability", "Malleability",
               {"dissat": Adt(MP + "Dissat", ds), "signed": s, "non_malleable": m})


def mk_type(c, m):
    return Adt(TP + "Type", "Type", {"corr": c, "mall": m})


FULL_CORR = [mk_corr(b, i, d, u) for b in BASES for i in INPUTS for d in (False, True) for u in (False, True)]
FULL_MALL = [mk_mall(ds, s, m) for ds in DISSATS for s in (False, True) for m in (False, True)]
# The quantifier "every combination of child types" ranges over types a fragment can have:
# the closure of the specification's own rules from its leaves (computed from the oracle,
# independently of the library). E.g. a K type with zero inputs does not exist.
ALL_CORR = list(FULL_CORR)
ALL_MALL = list(FULL_MALL)


def restrict_domains():
    rc, rm = spec.reachable_halves(3)
    ALL_CORR[:] = [c for c in FULL_CORR if spec._ck(corr_letters(c)) in rc]
    ALL_MALL[:] = [m for m in FULL_MALL if spec._mk(mall_letters(m)) in rm]


def corr_letters(c):
    i = c.fields["input"].variant
    return {
        "base": c.fields["base"].variant,
        "z": i == "Zero",
        "o": i in ("One", "OneNonZero"),
        "n": i in ("OneNonZero", "AnyNonZero"),
        "d": c.fields["dissatisfiable"],
        "u": c.fields["unit"],
    }


def mall_letters(m):
    ds = m.fields["dissat"].variant
    return {"s": m.fields["signed"], "f": ds == "None", "e": ds == "Unique", "m": m.fields["non_malleable"]}


def short(v):
    if isinstance(v, Adt) and v.path == CP + "Correctness":
        l = corr_letters(v)
        return l["base"] + "/" + "".join(f for f in "zondu" if l[f])
    if isinstance(v, Adt) and v.path == MP + "Malleability":
        l = mall_letters(v)
        return "".join(f for f in "sfem" if l[f]) or "-"
    if isinstance(v, Adt) and v.path == TP + "Type":
        return short(v.fields["corr"]) + "," + short(v.fields["mall"])
    return repr(v)


def unwrap_result(r):
    """-> ('ok', value) | ('err', kind)"""
    if isinstance(r, Adt) and r.path == RESULT:
        if r.variant == "Ok":
            return "ok", r.fields["0"]
        return "err", r.fields["0"]
    return "ok", r


def compare_cell(chk, rule_id, half, name, args_desc, lib, want, flags, letters, where):
    """lib: ('ok', value)|('err', kind)|('panic', msg); want: None|dict"""
    key = "%s::%s" % (half, name)
    if lib[0] == "panic":
        chk.fail(rule_id, key + "|panic", "rule panics on input %s: %s" % (args_desc, lib[1]), where)
        return False
    if want is None:
        if lib[0] != "err":
            chk.fail(rule_id, key + "|accepts",
                     "%s::%s accepts child types %s which the specification rejects (result %s)"
                     % (half, name, args_desc, short(lib[1])), where,
                     detail={"input": args_desc, "library": short(lib[1]), "spec": "reject"})
            return False
        return True
    if lib[0] == "err":
        chk.fail(rule_id, key + "|rejects",
                 "%s::%s rejects child types %s which the specification accepts (%r)"
                 % (half, name, args_desc, lib[1]), where,
                 detail={"input": args_desc, "library": repr(lib[1]), "spec": want})
        return False
    got = letters(lib[1])
    good = True
    if "base" in want and got.get("base") != want["base"]:
        chk.fail(rule_id, key + "|base", "%s::%s on %s: base %s, specification %s"
                 % (half, name, args_desc, got.get("base"), want["base"]), where)
        good = False
    for f in flags:
        if got[f] and not want[f]:
            chk.fail(rule_id, key + "|stronger:" + f,
                     "%s::%s on %s claims `%s` which the specification does not grant"
                     % (half, name, args_desc, f), where,
                     detail={"input": args_desc, "library": got, "spec": want})
            good = False
        elif want[f] and not got[f]:
            if (half, name, f) in spec.ALLOWED_WEAKER:
                continue
            chk.fail(rule_id, key + "|weaker:" + f,
                     "%s::%s on %s does not grant `%s` which the specification grants, and this cell is "
                     "not in the reasoned list of deliberate conservative deviations"
                     % (half, name, args_desc, f), where,
                     detail={"input": args_desc, "library": got, "spec": want})
            good = False
    return good


def call(m, path, args):
    try:
        return unwrap_result(m.call_path(path, args))
    except Panic as p:
        return ("panic", str(p))


def fn_where(F, path):
    return F.fns[path]["span"] if path in F.fns else ""


LIBTAB = {}


def ckey(c):
    return spec._ck(corr_letters(c))


def mkey(x):
    return spec._mk(mall_letters(x))


def check_rules(chk, F, m):
    rows = 0
    LIBTAB.clear()
    for half, prefix, rules, domain, flags, letters in (
            ("corr", CP + "Correctness::", spec.CORR_RULES, ALL_CORR, spec.CORR_FLAGS, corr_letters),
            ("mall", MP + "Malleability::", spec.MALL_RULES, ALL_MALL, spec.MALL_FLAGS, mall_letters)):
        rid = "R05.1-" + half
        chk.rule(rid, "exact table of every %s rule over its complete input domain equals the "
                      "specification (rejections and base equal; flags never stronger; weaker only if listed)" % half)
        for name, (arity, oracle) in sorted(rules.items()):
            path = prefix + name
            if path not in F.bodies:
                chk.fail(rid, "%s::%s|missing" % (half, name), "typing rule %s not found" % path,
                         kind="unanalysable")
                continue
            chk.saw(path)
            where = fn_where(F, path)
            bad = 0
            n = 0
            try:
                for args in itertools.product(domain, repeat=arity):
                    n += 1
                    lib = call(m, path, list(args))
                    want = oracle(*[letters(a) for a in args])
                    kf = ckey if half == "corr" else mkey
                    LIBTAB.setdefault((half, name), {})[tuple(kf(a) for a in args)] = \
                        kf(lib[1]) if lib[0] == "ok" else None
                    if bad < 3:
                        desc = "(" + "; ".join(short(a) for a in args) + ")"
                        if not compare_cell(chk, rid, half, name, desc, lib, want, flags, letters, where):
                            bad += 1
                    else:
                        # count remaining failing cells without flooding the report
                        pass
            except Unsupported as e:
                chk.fail(rid, "%s::%s|unanalysable" % (half, name), "unanalysable: %s" % e, where,
                         kind="unanalysable")
                continue
            rows += n
            if bad == 0:
                chk.ok(rid, n)
            if name in ("and_b", "cast_dupif", "or_d") and half == "corr":
                a = domain[(7 * len(name)) % len(domain)]
                chk.sample({"rule": half + "::" + name, "input": short(a),
                            "note": "one of %d rows" % n})
    return rows


def check_leaves(chk, F, m):
    rid = "R05.1-leaf"
    chk.rule(rid, "leaf types (pk_k, pk_h, multi*, hashes, timelocks, 0, 1) equal the specification's")
    for half, prefix, table, flags, letters in (
            ("corr", CP + "Correctness::", spec.CORR_LEAF, spec.CORR_FLAGS, corr_letters),
            ("mall", MP + "Malleability::", spec.MALL_LEAF, spec.MALL_FLAGS, mall_letters)):
        for libname, sname in sorted(spec.LEAF_RULES.items()):
            path = prefix + libname
            if path not in F.bodies:
                chk.fail(rid, "%s::%s|missing" % (half, libname), "leaf rule %s not found" % path,
                         kind="unanalysable")
                continue
            chk.saw(path)
            where = F.body(path)["span"]
            try:
                if libname in ("TRUE", "FALSE"):
                    v = m.eval(F.thir(path)["body"], {})
                    lib = ("ok", v)
                else:
                    lib = call(m, path, [])
            except Unsupported as e:
                chk.fail(rid, "%s::%s|unanalysable" % (half, libname), "unanalysable: %s" % e, where,
                         kind="unanalysable")
                continue
            want = table[sname]
            got = letters(lib[1]) if lib[0] == "ok" else None
            if got is None:
                chk.fail(rid, "%s::%s" % (half, libname), "leaf rule failed: %r" % (lib,), where)
                continue
            exact = all(got[f] == want[f] for f in flags) and got.get("base") == want.get("base")
            chk.obligation(rid, exact, "%s::%s" % (half, libname),
                           "leaf type %s::%s is %s, specification %s" % (half, libname, got, want), where)
            chk.sample({"leaf": half + "::" + libname, "library": short(lib[1])})


def thresh_domains(n, full):
    """children domains for Correctness::threshold"""
    def valid(c, pos):
        l = corr_letters(c)
        return l["base"] == ("B" if pos == 0 else "W") and l["d"] and l["u"]
    if full:
        return [ALL_CORR] * n
    doms = []
    for pos in range(n):
        good = [c for c in ALL_CORR if valid(c, pos)]
        # one reachable representative per way of being invalid at this position
        reps = {}
        for c in ALL_CORR:
            if valid(c, pos):
                continue
            l = corr_letters(c)
            why = (l["base"], l["d"], l["u"])
            reps.setdefault(why, c)
        doms.append(good + list(reps.values()))
    return doms


def check_threshold(chk, F, m, maxn):
    rid = "R05.1-thresh"
    chk.rule(rid, "Correctness::threshold and Malleability::threshold equal the specification for all "
                  "1<=k<=n<=%d (children: full domain for n<=2, valid + invalid representatives above)" % maxn)
    cpath = CP + "Correctness::threshold"
    mpath = MP + "Malleability::threshold"
    for p in (cpath, mpath):
        if p not in F.bodies:
            chk.fail(rid, p + "|missing", "rule %s not found" % p, kind="unanalysable")
            return 0
    chk.saw(cpath, mpath)
    rows = 0
    for n in range(1, maxn + 1):
        doms = thresh_domains(n, full=(n <= 2))
        for k in range(1, n + 1):
            bad = 0
            cnt = 0
            try:
                for subs in itertools.product(*doms):
                    cnt += 1
                    lib = call(m, cpath, [k, PyIter(list(subs))])
                    want = spec.corr_threshold(k, [corr_letters(s) for s in subs])
                    if bad < 2 and not compare_cell(
                            chk, rid, "corr", "threshold", "k=%d (%s)" % (k, "; ".join(short(s) for s in subs)),
                            lib, want, spec.CORR_FLAGS, corr_letters, fn_where(F, cpath)):
                        bad += 1
                mdom = [ALL_MALL] * n if n <= 4 else [[x for x in ALL_MALL if x.fields["non_malleable"]] + [ALL_MALL[0]]] * n
                for subs in itertools.product(*mdom):
                    cnt += 1
                    lib = call(m, mpath, [k, PyIter(list(subs))])
                    want = spec.mall_threshold(k, [mall_letters(s) for s in subs])
                    if bad < 2 and not compare_cell(
                            chk, rid, "mall", "threshold", "k=%d (%s)" % (k, "; ".join(short(s) for s in subs)),
                            lib, want, spec.MALL_FLAGS, mall_letters, fn_where(F, mpath)):
                        bad += 1
            except Unsupported as e:
                chk.fail(rid, "threshold|unanalysable", "unanalysable: %s" % e, kind="unanalysable")
                return rows
            rows += cnt
            if bad == 0:
                chk.ok(rid, cnt)
    chk.sample({"rule": "threshold", "max_n": maxn})
    return rows


def check_type_pairing(chk, F):
    """Type::f must be (Correctness::f(x.corr..), Malleability::f(x.mall..)) with the same f and the
    same argument order; decided symbolically with the two halves uninterpreted."""
    rid = "R05.1-pair"
    chk.rule(rid, "Type::f pairs Correctness::f and Malleability::f of the same rule on the same children in order")
    names = sorted(set(list(spec.CORR_RULES) + ["threshold"]) - {"cast_or_i_false"})
    names += ["cast_likely", "cast_unlikely"]
    leafs = [n for n in spec.LEAF_RULES]
    count = 0
    for name in names:
        path = TP + "Type::" + name
        if path not in F.bodies:
            chk.fail(rid, name + "|missing", "Type::%s not found" % name, kind="unanalysable")
            continue
        chk.saw(path)
        where = fn_where(F, path)
        inner = "cast_or_i_false" if name in ("cast_likely", "cast_unlikely") else name
        nparams = len(F.thir(path)["params"])

        def unint(p, callee, inner=inner):
            return p in (CP + "Correctness::" + inner, MP + "Malleability::" + inner)
        m = Machine(F, strict=False, uninterpreted=unint)
        if name == "threshold":
            args = [Term("k"), Term("subs")]
        else:
            args = [Adt(TP + "Type", "Type", {"corr": Term("c%d" % i), "mall": Term("m%d" % i)})
                    for i in range(nparams)]
        try:
            paths = explore(m, lambda: m.call_path(path, [a for a in args]))
        except Unsupported as e:
            chk.fail(rid, name + "|unanalysable", "unanalysable: %s" % e, where, kind="unanalysable")
            continue
        okp = [r for c, r in paths if isinstance(r, Adt) and r.variant == "Ok"]
        errp = [r for c, r in paths if (isinstance(r, Adt) and r.variant == "Err")
                or (isinstance(r, Term) and r.op == "from_residual")]
        good = len(okp) == 1 and len(errp) <= 1 and len(paths) == len(okp) + len(errp)
        msg = ""
        if good:
            t = okp[0].fields["0"]
            if not (isinstance(t, Adt) and t.path == TP + "Type"):
                good = False
                msg = "result is not a Type literal: %r" % (t,)
            else:
                c, ml = t.fields["corr"], t.fields["mall"]
                if name == "threshold":
                    # corr: unwrap(call(Correctness::threshold, k, it_map(subs...)))
                    cs, ms = repr(c), repr(ml)
                    good = (CP + "Correctness::threshold") in cs and (MP + "Malleability::threshold") in ms \
                        and cs.count("k") >= 1 and "subs" in cs and "subs" in ms
                    # closures must project .corr / .mall respectively
                    good = good and closure_projects(F, path, "corr") and closure_projects(F, path, "mall")
                    msg = "threshold pairing: corr=%s mall=%s" % (cs, ms)
                else:
                    want_c = Term("call", CP + "Correctness::" + inner, *[Term("c%d" % i) for i in range(nparams)])
                    want_m = Term("call", MP + "Malleability::" + inner, *[Term("m%d" % i) for i in range(nparams)])
                    cc = strip_unwrap(c)
                    good = (cc == want_c and ml == want_m)
                    msg = "Type::%s builds corr=%r mall=%r; expected %r / %r" % (name, c, ml, want_c, want_m)
        else:
            msg = "Type::%s has %d Ok paths and %d Err paths (expected exactly one Ok)" % (name, len(okp), len(errp))
        chk.obligation(rid, good, name, msg, where)
        count += 1
    # leaf pairing
    for name in leafs:
        path = TP + "Type::" + name
        if path not in F.bodies:
            chk.fail(rid, name + "|missing", "Type::%s not found" % name, kind="unanalysable")
            continue
        chk.saw(path)
        m = Machine(F, strict=True)
        try:
            if name in ("TRUE", "FALSE"):
                t = m.eval(F.thir(path)["body"], {})
                c = m.eval(F.thir(CP + "Correctness::" + name)["body"], {})
                ml = m.eval(F.thir(MP + "Malleability::" + name)["body"], {})
            else:
                t = m.call_path(path, [])
                c = m.call_path(CP + "Correctness::" + name, [])
                ml = m.call_path(MP + "Malleability::" + name, [])
        except Unsupported as e:
            chk.fail(rid, name + "|unanalysable", "unanalysable: %s" % e, kind="unanalysable")
            continue
        chk.obligation(rid, t == mk_type(c, ml), name,
                       "Type::%s = %s but halves are %s / %s" % (name, short(t), short(c), short(ml)),
                       F.body(path)["span"])
        count += 1
    chk.floor(rid, "Type rules", count, 28)


def strip_unwrap(t):
    # the Ok-path value of `match X { Ok(x) => x, Err(e) => return Err(e) }` on a symbolic X
    if isinstance(t, Term) and t.op == "vfield" and t.args[1] == "Ok":
        return t.args[0]
    if isinstance(t, Term) and t.op == "unwrap":
        return t.args[0]
    return t


def closure_projects(F, fn_path, field):
    """some closure of fn_path is exactly |s| &s.<field>"""
    for p, b in F.bodies.items():
        if p.startswith(fn_path + "::{closure"):
            body = b["thir"]["body"]
            fields = symx.find_nodes(body, lambda n: n.get("k") == "field")
            if len(fields) == 1 and fields[0]["name"] == field:
                return True
    return False


def check_dispatch(chk, F):
    """Type::type_check dispatches every Terminal variant to its own rule with children in order."""
    rid = "R05.1-dispatch"
    chk.rule(rid, "Type::type_check maps each Terminal variant to its own typing rule applied to the "
                  "children's types in order")
    path = TP + "Type::type_check"
    term_adt = "miniscript::decode::Terminal"
    if path not in F.bodies or term_adt not in F.adts:
        chk.fail(rid, "missing", "Type::type_check or Terminal not found", kind="unanalysable")
        return
    chk.saw(path)
    variants = F.variants(term_adt)
    chk.floor(rid, "Terminal variants", len(variants), 30)
    for v in F.adts[term_adt]["variants"]:
        vname = v["name"]
        if vname not in spec.TYPE_CHECK_DISPATCH:
            chk.fail(rid, vname + "|unknown", "Terminal variant %s is not in the oracle dispatch table" % vname)
            continue
        rule, child_fields = spec.TYPE_CHECK_DISPATCH[vname]
        fields = {}
        for fd in v["fields"]:
            fields[fd["name"]] = Term("child" + fd["name"])
        frag = Adt(term_adt, vname, fields)

        def unint(p, callee):
            return p.startswith(TP + "Type::") and p != path and "{closure" not in p
        m = Machine(F, strict=False, uninterpreted=unint,
                    hooks={TP + "Type::sanity_checks": lambda mm, a, c: ()})
        try:
            paths = explore(m, lambda: m.call_path(path, [frag]))
        except Unsupported as e:
            chk.fail(rid, vname + "|unanalysable", "unanalysable: %s" % e, kind="unanalysable")
            continue
        # collect all calls to Type::<rule> in all results
        found = set()
        for conds, res in paths:
            for t in symx.subterms(res):
                if isinstance(t, Term) and t.op in ("call", "const") and str(t.args[0]).startswith(TP + "Type::"):
                    found.add(t)
        if rule in ("TRUE", "FALSE"):
            want = {Term("const", TP + "Type::" + rule)}
        elif rule == "threshold":
            want = None
        else:
            want = {Term("call", TP + "Type::" + rule,
                         *[Term("field", Term("child" + cf), "ty") for cf in child_fields])}
        if want is None:
            names = set(t.args[0] for t in found)
            good = names == {TP + "Type::threshold"}
            # threshold must receive thresh.k() and the children's .ty in iteration order
            if good:
                t = list(found)[0]
                s = repr(t)
                good = "child0" in s and closure_projects(F, path, "ty")
            chk.obligation(rid, good, vname, "Thresh arm calls %r" % (found,), fn_where(F, path))
        else:
            chk.obligation(rid, found == want, vname,
                           "type_check(%s) evaluates %r, expected %r" % (vname, sorted(map(repr, found)), sorted(map(repr, want))),
                           fn_where(F, path))
        if vname in ("AndOr", "OrD", "PkH"):
            chk.sample({"variant": vname, "dispatch": sorted(map(repr, found))})


def check_subtype(chk, F, m):
    rid = "R05.2-subtype"
    chk.rule(rid, "is_subtype is the flag-implication partial order (reflexive, antisymmetric, transitive; "
                  "a<=b iff every flag of b is a flag of a and the bases agree)")
    cpath = CP + "Correctness::is_subtype"
    mpath = MP + "Malleability::is_subtype"
    n = 0
    for path, dom, letters, flags in ((cpath, ALL_CORR, corr_letters, spec.CORR_FLAGS),
                                     (mpath, ALL_MALL, mall_letters, spec.MALL_FLAGS)):
        if path not in F.bodies:
            chk.fail(rid, path + "|missing", "not found", kind="unanalysable")
            continue
        chk.saw(path)
        bad = 0
        try:
            for a in dom:
                la = letters(a)
                for b in dom:
                    lb = letters(b)
                    got = m.call_path(path, [a, b])
                    want = la.get("base") == lb.get("base") and all(la[f] or not lb[f] for f in flags)
                    n += 1
                    if got != want and bad < 3:
                        bad += 1
                        chk.fail(rid, path.split("::")[-2] + "::is_subtype",
                                 "is_subtype(%s, %s) = %s, flag implication says %s" % (short(a), short(b), got, want),
                                 fn_where(F, path))
        except Unsupported as e:
            chk.fail(rid, path + "|unanalysable", "unanalysable: %s" % e, kind="unanalysable")
            continue
        if bad == 0:
            chk.ok(rid, len(dom) * len(dom))
    return n


def reachable_types(chk, F, m, maxn=3):
    """Least fixpoint of the *library's* typing rules from its leaves: the set of types any
    well-typed fragment can have. Uses the per-half tables extracted by check_rules (Type::f is
    the componentwise pairing, R05.1-pair). Discharges sanity_checks (debug assertions) statically."""
    rid = "R05.2-sanity"
    chk.rule(rid, "Type::sanity_checks / Correctness::sanity_checks hold on every type reachable from the "
                  "leaves through the library's typing rules (least fixpoint)")
    T = TP + "Type::"
    cval = dict((ckey(c), c) for c in FULL_CORR)
    mval = dict((mkey(x), x) for x in FULL_MALL)
    reach = set()
    tmemo = {}

    def thresh(k, subs):
        ck = (k, tuple(c for c, _ in subs))
        mk = (k, tuple(x for _, x in subs))
        if ("c",) + ck not in tmemo:
            r = call(m, CP + "Correctness::threshold", [k, PyIter([cval[c] for c, _ in subs])])
            tmemo[("c",) + ck] = ckey(r[1]) if r[0] == "ok" else None
        if ("m",) + mk not in tmemo:
            r = call(m, MP + "Malleability::threshold", [k, PyIter([mval[x] for _, x in subs])])
            tmemo[("m",) + mk] = mkey(r[1])
        c = tmemo[("c",) + ck]
        return None if c is None else (c, tmemo[("m",) + mk])

    try:
        for leaf in spec.LEAF_RULES:
            if leaf in ("TRUE", "FALSE"):
                t = m.eval(F.thir(T + leaf)["body"], {})
            else:
                t = m.call_path(T + leaf, [])
            reach.add((ckey(t.fields["corr"]), mkey(t.fields["mall"])))
        rules = [(n, ar) for n, (ar, _) in spec.CORR_RULES.items()]
        new = set(reach)
        rounds = 0
        while new:
            rounds += 1
            cur = list(reach)
            fresh = set()

            def add(t):
                if t is not None and t not in reach and t not in fresh:
                    fresh.add(t)
            for name, ar in rules:
                tc = LIBTAB[("corr", name)]
                tm = LIBTAB[("mall", name)]
                if ar == 3:
                    firsts = [t for t in cur if t[0][0] == "B"]
                    pools = [firsts, cur, cur]
                else:
                    pools = [cur] * ar
                for args in itertools.product(*pools):
                    if not any(a in new for a in args):
                        continue
                    if ar == 3 and args[1][0][0] != args[2][0][0]:
                        continue
                    c = tc[tuple(a[0] for a in args)]
                    if c is None:
                        continue
                    add((c, tm[tuple(a[1] for a in args)]))
            firsts = [t for t in cur if t[0][0] == "B"]
            ws = [t for t in cur if t[0][0] == "W"]
            for n in range(1, maxn + 1):
                for k in range(1, n + 1):
                    for first in firsts:
                        for rest in itertools.combinations_with_replacement(ws, n - 1):
                            subs = [first] + list(rest)
                            if not any(a in new for a in subs):
                                continue
                            add(thresh(k, subs))
            reach |= fresh
            new = fresh
    except Unsupported as e:
        chk.fail(rid, "fixpoint|unanalysable", "unanalysable: %s" % e, kind="unanalysable")
        return set()
    except KeyError as e:
        chk.fail(rid, "fixpoint|escape", "the library's rules produce a type outside the specification's "
                 "reachable set (see R05.1 reports): %s" % (e,))
        return set()
    chk.extra["reachable_types"] = len(reach)
    chk.extra["fixpoint_rounds"] = rounds
    types = [mk_type(cval[c], mval[x]) for c, x in reach]
    for t in sorted(types, key=short):
        try:
            m.call_path(T + "sanity_checks", [t])
            chk.ok(rid)
        except Panic as p:
            chk.fail(rid, "sanity|" + short(t), "reachable type %s violates a sanity_checks assertion: %s" % (short(t), p),
                     fn_where(F, T + "sanity_checks"))
        except Unsupported as e:
            chk.fail(rid, "sanity|unanalysable", "unanalysable: %s" % e, kind="unanalysable")
            break
    # the reasoned deviation `c: s` relies on every reachable K type being signed
    allk = all(x[0] for c, x in reach if c[0] == "K")
    chk.obligation(rid, allk, "K-signed", "a reachable K type is not `s`; the c: deviation note no longer holds")
    # cross-check with the specification's own joint fixpoint
    chk.sample({"reachable_types": len(reach), "examples": sorted(short(t) for t in types)[:12]})
    return reach


def run(chk):
    F = chk.facts()
    m = Machine(F, strict=True)
    restrict_domains()
    chk.extra["domain"] = {"correctness_values": len(ALL_CORR), "malleability_values": len(ALL_MALL),
                           "note": "closure of the specification's rules from its leaves"}
    chk.explanation = (
        "Decides the whole property on the complete finite domain: every Correctness::* and "
        "Malleability::* rule is evaluated from its typed syntax tree (THIR) on all child-type combinations of its domain (the 37 "
        "correctness and 12 malleability values any fragment can have: 37^arity resp. 12^arity rows) and compared cell by cell with the transcribed specification "
        "tables (rejections and base equal, flags never stronger, weaker only where listed with a reason); "
        "threshold for all 1<=k<=n<=N; Type::* is shown to be the componentwise pairing symbolically; "
        "type_check's per-variant dispatch is extracted for all Terminal variants; is_subtype and the "
        "debug sanity assertions are discharged on the reachable-type fixpoint.")
    chk.trusted = ["spec/types.py (transcription of the Miniscript specification tables)",
                   "factgen THIR dump (rustc nightly) and msverif.interp evaluator semantics"]
    chk.assumptions = [
        "the specification is the table in spec/types.py (website table; or_b `e` unconditional as cited by the library)",
        "thresh is covered for n <= %d only (rule bodies are loops over n)" % (3 if chk.tier == "quick" else 5),
    ]
    check_leaves(chk, F, m)
    rows = check_rules(chk, F, m)
    rows += check_threshold(chk, F, m, 3 if chk.tier == "quick" else 5)
    check_type_pairing(chk, F)
    check_dispatch(chk, F)
    rows += check_subtype(chk, F, m)
    reachable_types(chk, F, m, 3 if chk.tier == "quick" else 4)
    chk.extra["table_rows"] = rows
    chk.extra["exhaustive"] = True
    from . import ctors
    chk.guard("R05.4", "typed-constructors", ctors.check_typed_constructors, chk, F, "R05.4")
