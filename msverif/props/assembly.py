"""Output-type tables and satisfaction assembly (R01.3 / R16.1 / R17.2): symbolic extraction of what each
descriptor type computes as scriptPubKey / inner script / script code / unsigned scriptSig, and of what is
appended to the miniscript witness and where it is placed, for the direct, plan and PSBT paths."""

import os
import sys

from .. import symx, model, linform
from ..interp import Machine, Adt, Term, PyVec, PyIter, Panic, explore, ok, err, some, NONE, RESULT
from ..report import Unsupported

sys.path.insert(0, os.path.join(os.path.dirname(__file__), "..", ".."))
from spec import outputs as spec  # noqa: E402

WSH, WPKH = "descriptor::segwitv0::Wsh", "descriptor::segwitv0::Wpkh"
BARE, PKH = "descriptor::bare::Bare", "descriptor::bare::Pkh"
SH, SHI = "descriptor::sh::Sh", "descriptor::sh::ShInner"
DESC = "descriptor::Descriptor"
MSV = Term("ms")
KEY = Term("pk", 0)


def values():
    wsh = Adt(WSH, "Wsh", {"ms": MSV})
    wpkh = Adt(WPKH, "Wpkh", {"pk": KEY})
    return {
        "Bare": Adt(BARE, "Bare", {"ms": MSV}),
        "Pkh": Adt(PKH, "Pkh", {"pk": KEY}),
        "Wpkh": wpkh,
        "Wsh": wsh,
        "Sh": Adt(SH, "Sh", {"inner": Adt(SHI, "Ms", {"0": MSV})}),
        "ShWsh": Adt(SH, "Sh", {"inner": Adt(SHI, "Wsh", {"0": wsh})}),
        "ShWpkh": Adt(SH, "Sh", {"inner": Adt(SHI, "Wpkh", {"0": wpkh})}),
    }


def script_hooks():
    """models of the rust-bitcoin script / address constructors as term constructors"""
    h = {}

    def t(name, *idx):
        return lambda m, a, c: Term(name, *[strip(a[i]) for i in idx])
    h["bitcoin::Script::to_p2wsh"] = t("p2wsh", 0)
    h["bitcoin::Script::to_p2sh"] = t("p2sh", 0)
    h["bitcoin::ScriptBuf::new"] = lambda m, a, c: Term("script")
    h["bitcoin::script::Builder::new"] = lambda m, a, c: Term("script")
    h["bitcoin::script::Builder::into_script"] = lambda m, a, c: a[0]
    h["bitcoin::script::Builder::push_slice"] = lambda m, a, c: Term("script", *(a[0].args + (Term("push", strip(a[1])),)))
    h["bitcoin::script::Builder::push_key"] = lambda m, a, c: Term("script", *(a[0].args + (Term("pushkey", strip(a[1])),)))
    h["bitcoin::Address::p2wsh"] = lambda m, a, c: Term("addr", Term("p2wsh", strip(a[0])), a[1])
    h["bitcoin::Address::p2sh"] = lambda m, a, c: ok(Term("addr", Term("p2sh", strip(a[0])), a[1]))
    h["bitcoin::Address::p2pkh"] = lambda m, a, c: Term("addr", Term("p2pkh", strip(a[0])), a[1])
    h["bitcoin::Address::p2wpkh"] = lambda m, a, c: Term("addr", Term("p2wpkh", strip(a[0])), a[1])
    h["bitcoin::Address::script_pubkey"] = lambda m, a, c: a[0].args[0] if isinstance(a[0], Term) and a[0].op == "addr" else Term("spk_of", a[0])
    for nm in ("bitcoin::ScriptBuf::into_bytes", "bitcoin::Script::as_bytes", "bitcoin::ScriptBuf::as_bytes",
               "bitcoin::Script::to_bytes", "bitcoin::PublicKey::to_bytes"):
        h[nm] = lambda m, a, c: Term("bytes", strip(a[0])) if c.get("name") == "to_bytes" and "PublicKey" in c.get("def", "") else a[0]
    h["bitcoin::PublicKey::to_bytes"] = lambda m, a, c: Term("keybytes", strip(a[0]))
    h["ToPublicKey::to_public_key"] = lambda m, a, c: strip(a[0])
    h["bitcoin::key::CompressedPublicKey::try_from"] = lambda m, a, c: ok(a[0])
    return h


def strip(x):
    """drop representation-only wrappers"""
    while isinstance(x, Term) and x.op in ("unwrap", "into", "bytes") and x.args:
        x = x.args[0]
    if isinstance(x, Term) and x.op == "call" and str(x.args[0]).endswith("::encode") and len(x.args) == 2:
        return Term("enc", x.args[1])
    if isinstance(x, Term) and x.op == "call" and str(x.args[0]).endswith("try_from") and len(x.args) == 2:
        return strip(x.args[1])
    return x


def nf(x):
    """term -> oracle notation"""
    x = strip(x)
    if isinstance(x, Adt) and x.path == RESULT and x.variant == "Ok":
        return nf(x.fields["0"])
    if isinstance(x, Term):
        if x.op == "enc":
            return ("enc", "ms")
        if x.op == "pk":
            return ("key",)
        if x.op == "keybytes":
            return ("keybytes", ("key",))
        if x.op in ("p2wsh", "p2sh", "p2pkh", "p2wpkh", "push", "pushkey"):
            return (x.op, nf(x.args[0]))
        if x.op == "script":
            if not x.args:
                return ("script",)
            if len(x.args) == 1 and x.args[0].op == "push":
                return nf(x.args[0])
            return ("script",) + tuple(nf(a) for a in x.args)
        if x.op == "pushes":
            return ("pushes", [nf(i) for i in x.args[0].items]) if isinstance(x.args[0], PyVec) else ("pushes", nf(x.args[0]))
        if x.op in ("W", "T", "sig", "leafscript", "controlblock"):
            return (x.op,) if x.op != "T" else "T"
        return ("?", repr(x))
    if isinstance(x, PyVec):
        return [nf(i) for i in x.items]
    if isinstance(x, tuple):
        return tuple(nf(i) for i in x)
    return ("?", repr(x))


def unint(p, callee):
    nm = callee.get("name")
    if nm == "encode" and "Miniscript" in (callee.get("container") or callee.get("def") or ""):
        return True
    tr = callee.get("trait") or ""
    if tr.endswith("ToPublicKey") or tr.endswith("MiniscriptKey") or tr.endswith("Satisfier") or tr.endswith("AssetProvider"):
        return True
    return False


def method(F, adt, name):
    for p, f in F.fns.items():
        if f.get("name") == name and (f.get("container") or "").startswith(adt + "<") and f.get("kind") != "Closure":
            return p
    raise KeyError("%s::%s" % (adt, name))


def run(F, path, args, extra_hooks=None, assume=None):
    hooks = script_hooks()
    hooks["util::witness_to_scriptsig"] = lambda m, a, c: Term("pushes", a[0])
    if extra_hooks:
        hooks.update(extra_hooks)
    m = Machine(F, strict=False, hooks=hooks, uninterpreted=unint)
    return explore(m, lambda: m.call_path(path, list(args)), assume), m


def check_outputs(chk, F, rid):
    chk.rule(rid, "per descriptor type, scriptPubKey / inner script / ECDSA script code / unsigned scriptSig are the "
                  "standard encodings computed from the explicit script or key, address(net).script_pubkey = "
                  "script_pubkey, and sh(X) = p2sh(X's script)")
    vals = values()
    adt_of = {"Bare": BARE, "Pkh": PKH, "Wpkh": WPKH, "Wsh": WSH, "Sh": SH, "ShWsh": SH, "ShWpkh": SH}
    fn_of = {"script_pubkey": "script_pubkey", "inner_script": "inner_script",
             "script_code": "ecdsa_sighash_script_code", "unsigned_script_sig": "unsigned_script_sig"}
    n = 0
    for ty, v in vals.items():
        for key, fname in fn_of.items():
            if fname == "unsigned_script_sig" and adt_of[ty] != SH:
                continue   # only sh has its own; Descriptor::unsigned_script_sig returns the empty script otherwise
            try:
                p = method(F, adt_of[ty], fname)
                res, m = run(F, p, [v])
            except KeyError as e:
                chk.fail(rid, "%s|%s|anchor" % (ty, key), "missing %s" % e, kind="unanalysable")
                continue
            except Unsupported as e:
                chk.fail(rid, "%s|%s|unanalysable" % (ty, key), "unanalysable: %s" % e, kind="unanalysable")
                continue
            chk.saw(p)
            vals_ = [r for c, r in res if not (isinstance(r, tuple) and r and r[0] == "panic")]
            if len(vals_) != 1:
                chk.fail(rid, "%s|%s|paths" % (ty, key), "%d non-panicking paths" % len(vals_), F.fns[p]["span"], kind="unanalysable")
                continue
            got = nf(vals_[0])
            want = spec.OUTPUTS[ty][key]
            n += 1
            chk.obligation(rid, got == want, "%s|%s" % (ty, key),
                           "%s %s is %r, the standard is %r" % (ty, key, got, want), F.fns[p]["span"],
                           detail={"type": ty, "function": fname, "got": repr(got), "want": repr(want)})
            if ty in ("ShWsh", "Wpkh") and key in ("script_pubkey", "script_code"):
                chk.sample({"type": ty, key: repr(got)})
        # address agrees with script_pubkey and only the network flows into it
        if ty != "Bare":
            try:
                p = method(F, adt_of[ty], "address")
                res, m = run(F, p, [v, Term("network")])
                vals_ = [r for c, r in res if not (isinstance(r, tuple) and r and r[0] == "panic")]
                a = vals_[0] if len(vals_) >= 1 else None
                if isinstance(a, Adt) and a.path == RESULT:
                    a = a.fields["0"]
                good = isinstance(a, Term) and a.op == "addr" and nf(a.args[0]) == spec.OUTPUTS[ty]["script_pubkey"] \
                    and a.args[1] == Term("network")
                n += 1
                chk.obligation(rid, good, "%s|address" % ty,
                               "%s address(network) is %r; expected the address of %r on that network"
                               % (ty, a, spec.OUTPUTS[ty]["script_pubkey"]), F.fns[p]["span"])
            except (KeyError, Unsupported) as e:
                chk.fail(rid, "%s|address|unanalysable" % ty, "unanalysable: %s" % e, kind="unanalysable")
    chk.floor(rid, "output table cells", n, 28)


def check_direct_assembly(chk, F, rid):
    chk.rule(rid, "direct satisfaction assembly: wsh -> witness ++ [witness script], empty scriptSig; sh(ms) -> "
                  "scriptSig pushes of witness ++ [redeem script]; sh(wsh)/sh(wpkh) -> inner witness, scriptSig = push of "
                  "the inner program; bare -> scriptSig pushes; pkh/wpkh -> sig, key; both modes")
    vals = values()
    adt_of = {"Bare": BARE, "Pkh": PKH, "Wpkh": WPKH, "Wsh": WSH, "Sh": SH, "ShWsh": SH, "ShWpkh": SH}
    sat_hooks = {}
    for nm in ("satisfy", "satisfy_malleable"):
        try:
            sat_hooks[F.fn(nm, file="miniscript/mod.rs", container="Miniscript")] = lambda m, a, c: ok(PyVec([Term("W")]))
        except KeyError as e:
            chk.fail(rid, "anchor|" + nm, "missing %s" % e, kind="unanalysable")
            return
    sat_hooks["bitcoin::ecdsa::Signature::to_vec"] = lambda m, a, c: Term("sig")
    sat_hooks["bitcoin::ecdsa::Signature::serialize"] = lambda m, a, c: Term("sig")
    sat_hooks["<bitcoin::ecdsa::SerializedSignature as std::convert::AsRef<bitcoin::script::PushBytes>>::as_ref"] = lambda m, a, c: a[0]

    def assume(term, taken):
        if term.op == "is" and "lookup_ecdsa_sig" in repr(term.args[0]):
            return term.args[1] == "Some"
        return None
    for ty, v in vals.items():
        for fname in ("get_satisfaction", "get_satisfaction_mall"):
            try:
                p = method(F, adt_of[ty], fname)
                res, m = run(F, p, [v, Term("satisfier")], sat_hooks, assume)
            except KeyError as e:
                chk.fail(rid, "%s|%s|anchor" % (ty, fname), "missing %s" % e, kind="unanalysable")
                continue
            except Unsupported as e:
                chk.fail(rid, "%s|%s|unanalysable" % (ty, fname), "unanalysable: %s" % e, kind="unanalysable")
                continue
            chk.saw(p)
            oks = [r.fields["0"] for c, r in res if isinstance(r, Adt) and r.path == RESULT and r.variant == "Ok"]
            if len(oks) != 1:
                chk.fail(rid, "%s|%s|paths" % (ty, fname), "%d success paths" % len(oks), F.fns[p]["span"], kind="unanalysable")
                continue
            wit, ssig = oks[0]
            got = (nf(wit), nf(ssig))
            want = spec.SATISFACTION[ty]
            chk.obligation(rid, got == (list(want[0]), want[1]), "%s|%s" % (ty, fname),
                           "%s::%s returns (witness, scriptSig) = %r; the standard placement is %r"
                           % (ty, fname, got, want), F.fns[p]["span"],
                           detail={"type": ty, "got": repr(got), "want": repr(want)})
            if ty in ("Sh", "ShWsh") and fname == "get_satisfaction":
                chk.sample({"type": ty, "witness": repr(got[0]), "scriptSig": repr(got[1])})


def check_plan_assembly(chk, F, rid):
    chk.rule(rid, "Plan::satisfy assembles per descriptor type exactly what the direct path does: the completed "
                  "template, plus the witness script (wsh, sh-wsh) or redeem script (sh) and the unsigned scriptSig")
    try:
        p = F.fn("satisfy", file="plan.rs", container="Plan<")
        desc_type = F.fn("desc_type", file="descriptor/mod.rs")
        explicit = F.fn("explicit_script", file="descriptor/mod.rs")
        uss = [x for x in F.fn("unsigned_script_sig", file="descriptor/mod.rs", allow_many=True)][0]
        satisfy_self = F.fn("satisfy_self", file="satisfy/mod.rs")
    except (KeyError, IndexError) as e:
        chk.fail(rid, "anchors", "missing %s" % e, kind="unanalysable")
        return
    chk.saw(p)
    DT = "descriptor::DescriptorType"
    if DT not in F.adts:
        chk.fail(rid, "DescriptorType", "not found", kind="unanalysable")
        return
    variants = F.variants(DT)
    chk.floor(rid, "DescriptorType variants", len(variants), 8)
    for dt in variants:
        hooks = {
            desc_type: lambda m, a, c, dt=dt: Adt(DT, dt),
            explicit: lambda m, a, c: ok(Term("enc", MSV)),
            uss: lambda m, a, c: Term("unsigned_script_sig"),
            satisfy_self: lambda m, a, c: some(Term("T")),
            "bitcoin::script::PushBytesBuf::try_from": lambda m, a, c: ok(a[0]),
        }
        plan = Adt("plan::Plan", "Plan", {"template": PyVec([Term("tmpl")]), "absolute_timelock": NONE,
                                          "relative_timelock": NONE, "descriptor": Term("descriptor")})
        try:
            res, m = run(F, p, [plan, Term("stfr")], hooks)
        except Unsupported as e:
            chk.fail(rid, dt + "|unanalysable", "unanalysable: %s" % e, F.fns[p]["span"], kind="unanalysable")
            continue
        oks = [r.fields["0"] for c, r in res if isinstance(r, Adt) and r.path == RESULT and r.variant == "Ok"]
        if len(oks) != 1:
            chk.fail(rid, dt + "|paths", "%d success paths" % len(oks), F.fns[p]["span"], kind="unanalysable")
            continue
        wit, ssig = oks[0]
        gw = nf(wit)
        if isinstance(ssig, Term) and ssig.op == "unsigned_script_sig":
            gs = "unsigned_script_sig"
        elif isinstance(ssig, Term) and ssig.op == "script":
            gs = ("pushes", [nf(a.args[0]) for a in ssig.args]) if ssig.args else ("script",)
        else:
            gs = nf(ssig)
        want = spec.PLAN.get(dt)
        if want is None:
            chk.fail(rid, dt + "|unknown", "DescriptorType::%s is not in the oracle" % dt, F.fns[p]["span"])
            continue
        chk.obligation(rid, (gw, gs) == (list(want[0]), want[1]), dt,
                       "Plan::satisfy for %s returns (witness, scriptSig) = (%r, %r); the spend needs (%r, %r)"
                       % (dt, gw, gs, want[0], want[1]), F.fns[p]["span"],
                       detail={"type": dt, "got": repr((gw, gs)), "want": repr(want)})


def check_plan_sizes(chk, F, rid):
    chk.rule(rid, "the sizes a plan announces count everything Plan::satisfy puts into the witness / scriptSig")
    try:
        ws = F.fn("witness_size", file="plan.rs", container="Plan<")
        ss = F.fn("scriptsig_size", file="plan.rs", container="Plan<")
        desc_type = F.fn("desc_type", file="descriptor/mod.rs")
    except KeyError as e:
        chk.fail(rid, "anchors", "missing %s" % e, kind="unanalysable")
        return
    chk.saw(ws, ss)
    DT = "descriptor::DescriptorType"
    for dt in F.variants(DT):
        segv = {"Wpkh": "V0", "Wsh": "V0", "ShWpkh": "V0", "ShWsh": "V0", "Tr": "V1"}.get(dt)
        hooks = {
            desc_type: lambda m, a, c, dt=dt: Adt(DT, dt),
            "util::witness_size": lambda m, a, c: Term("size_of_template"),
            "util::ItemSize::size": lambda m, a, c: Term("size_of_template"),
        }
        for q in F.fns:
            if q.endswith("ItemSize>::size"):
                hooks[q] = lambda m, a, c: Term("size_of_template")
        try:
            sv = F.fn("segwit_version", file="descriptor/mod.rs")
        except KeyError:
            sv = None
        plan = Adt("plan::Plan", "Plan", {"template": PyVec([Term("tmpl")]), "absolute_timelock": NONE,
                                          "relative_timelock": NONE, "descriptor": Term("descriptor")})
        m = Machine(F, strict=False, hooks=hooks, uninterpreted=lambda p, c: c.get("name") in ("explicit_script", "len", "script_size", "varint_len", "push_opcode_size"))
        try:
            w = m.call_path(ws, [plan])
            s_ = m.call_path(ss, [plan])
        except (Unsupported, Panic) as e:
            chk.fail(rid, dt + "|unanalysable", "unanalysable: %s" % e, kind="unanalysable")
            continue
        wn = repr(w)
        sn = repr(s_)
        needs_script_in_witness = dt in ("Wsh", "ShWsh")
        needs_script_in_sig = dt == "Sh"
        if needs_script_in_witness:
            chk.obligation(rid, "explicit_script" in wn or "script_size" in wn or "enc" in wn, "witness_size|" + dt,
                           "Plan::witness_size for %s is %s: it does not count the witness script that Plan::satisfy "
                           "appends" % (dt, wn), F.fns[ws]["span"])
        else:
            chk.obligation(rid, (dt in spec.SEGWIT_TYPES) == ("size_of_template" in wn), "witness_size|" + dt,
                           "Plan::witness_size for %s is %s" % (dt, wn), F.fns[ws]["span"])
        if needs_script_in_sig:
            chk.obligation(rid, "explicit_script" in sn or "script_size" in sn, "scriptsig_size|" + dt,
                           "Plan::scriptsig_size for %s is %s: it does not count the redeem script" % (dt, sn),
                           F.fns[ss]["span"])
        elif dt in ("Bare", "Pkh"):
            chk.obligation(rid, "size_of_template" in sn, "scriptsig_size|" + dt,
                           "Plan::scriptsig_size for %s is %s (the template goes into the scriptSig)" % (dt, sn), F.fns[ss]["span"])
        elif dt == "ShWsh":
            # length prefix (1) + push opcode (1) + the 34-byte redeem script 0020<32>
            chk.obligation(rid, s_ == 36, "scriptsig_size|" + dt, "Plan::scriptsig_size for sh(wsh) is %s; the scriptSig is the "
                           "push of the 34-byte redeem script: 35 bytes + its length prefix = 36" % sn, F.fns[ss]["span"])
        elif dt == "ShWpkh":
            chk.obligation(rid, s_ == 24, "scriptsig_size|" + dt, "Plan::scriptsig_size for sh(wpkh) is %s; the scriptSig is the "
                           "push of the 22-byte redeem script: 23 bytes + its length prefix = 24" % sn, F.fns[ss]["span"])
        else:
            chk.obligation(rid, s_ == 1, "scriptsig_size|" + dt, "Plan::scriptsig_size for %s is %s, expected 1 (empty script)" % (dt, sn), F.fns[ss]["span"])


def check_tap_assembly(chk, F, rid):
    chk.rule(rid, "taproot script-path assembly: best_tap_spend and the PSBT finalizer append [leaf script, control "
                  "block] in that order after the leaf's witness; the key path is the single key-spend signature")
    PH = "miniscript::satisfy::Placeholder"
    try:
        bts = F.fn("best_tap_spend", file="descriptor/tr/mod.rs")
    except KeyError as e:
        chk.fail(rid, "anchor", "missing %s" % e, kind="unanalysable")
        return
    chk.saw(bts)
    th = F.thir(bts)["body"]
    pushes = []
    for n in symx.find_nodes(th, lambda n: n.get("k") == "call" and "callee" in n and n["callee"].get("name") == "push"):
        arg = symx.strip_expr(n["args"][1])
        if arg.get("k") == "adt" and arg.get("adt") == PH:
            pushes.append((arg["variant"], n.get("sp", "")))
    order = [v for v, _ in pushes]
    chk.obligation(rid, order == ["TapScript", "TapControlBlock"], "best_tap_spend|order",
                   "best_tap_spend appends %s to the leaf witness; BIP341 requires [script, control block]" % order,
                   F.fns[bts]["span"])
    # the key path
    keysp = [n for n in symx.find_nodes(th, lambda n: n.get("k") == "adt" and n.get("adt") == "miniscript::satisfy::SchnorrSigType")]
    chk.obligation(rid, any(n["variant"] == "KeySpend" for n in keysp), "best_tap_spend|keyspend",
                   "best_tap_spend has no key-spend signature placeholder", F.fns[bts]["span"])
    # the script and control block come from the same leaf
    srcs = []
    for n in symx.find_nodes(th, lambda n: n.get("k") == "call" and "callee" in n and n["callee"].get("name") in ("script", "control_block")):
        recv = symx.strip_expr(n["args"][0])
        srcs.append((n["callee"]["name"], recv.get("name")))
    chk.obligation(rid, len(set(r for _, r in srcs)) == 1 and set(nm for nm, _ in srcs) == {"script", "control_block"},
                   "best_tap_spend|same-leaf", "leaf script and control block are taken from %r (must be the same leaf)" % srcs,
                   F.fns[bts]["span"])
    # PSBT finalizer
    try:
        ctw = F.fn("construct_tap_witness", file="psbt/finalizer.rs")
        chk.saw(ctw)
        th = F.thir(ctw)["body"]
        calls = symx.callsites(F, ctw)
        pushes = [c for c in calls if c["name"] == "push"]
        txt = []
        for c in pushes:
            a = symx.strip_expr(c["args"][1])
            txt.append(repr_expr(a))
        chk.obligation(rid, len(txt) >= 2 and "script" in txt[-2] and "control_block" in txt[-1] or
                       (len(txt) >= 2 and "control" in txt[-1]), "construct_tap_witness|order",
                       "PSBT construct_tap_witness pushes %r after the leaf witness; expected the leaf script then the "
                       "control block" % (txt,), F.fns[ctw]["span"])
    except KeyError as e:
        chk.fail(rid, "construct_tap_witness|anchor", "missing %s" % e, kind="unanalysable")


def repr_expr(e):
    """short textual rendering of a THIR expression: the names it mentions"""
    names = []

    def f(n):
        if n.get("k") in ("var", "upvar"):
            names.append(n["name"])
        if n.get("k") == "call" and "callee" in n:
            names.append(n["callee"].get("name") or "")
        if n.get("k") == "field":
            names.append(n["name"])
    symx.walk(e, f)
    return " ".join(names)


def check_assembly(chk, F, rid):
    check_direct_assembly(chk, F, rid)
    check_plan_assembly(chk, F, rid + "p")
    check_tap_assembly(chk, F, rid + "t")
