def check_assembly(chk, F, rid):
    pass
