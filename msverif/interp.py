"""Evaluator for the typed syntax trees (THIR) dumped by factgen.

Two modes share one implementation:

* strict (tablex): all values concrete; anything outside the supported
  language raises Unsupported (rules fail closed).
* symbolic (symx): values may be `Term`s; designated / unknown functions are
  uninterpreted constructors; branches on symbolic conditions are explored by
  re-execution under a decision script (`explore`).
"""

import copy
import os
import re

from .report import Unsupported
from .tystr import subst_type, unify_type, impl_self_pattern, type_head


_BRANCH = re.compile(r"^Branch\(\[(.*)\]\): (?:&'?\w* ?)?str$")


def pat_str(pat):
    """string value of a constant pattern (rustc prints str valtrees as Branch([bytes]): str)"""
    if "str" in pat:
        return pat["str"]
    t = pat.get("text")
    if not t:
        return None
    m = _BRANCH.match(t)
    if not m:
        return None
    body = m.group(1).strip()
    if not body:
        return ""
    try:
        return bytes(int(x.strip().split("_")[0]) for x in body.split(",")).decode("utf-8")
    except ValueError:
        return None



# --------------------------------------------------------------------------
# values

class Adt(object):
    __slots__ = ("path", "variant", "fields")

    def __init__(self, path, variant, fields=None):
        self.path = path
        self.variant = variant
        self.fields = fields if fields is not None else {}

    def __eq__(self, o):
        return isinstance(o, Adt) and self.path == o.path and self.variant == o.variant \
            and self.fields == o.fields

    def __ne__(self, o):
        return not self.__eq__(o)

    def __hash__(self):
        return hash((self.path, self.variant, tuple(sorted((k, freeze(v)) for k, v in self.fields.items()))))

    def __repr__(self):
        short = self.path.split("::")[-1]
        if self.variant != short:
            short = short + "::" + self.variant
        if not self.fields:
            return short
        if all(k.isdigit() for k in self.fields):
            return "%s(%s)" % (short, ", ".join(repr(self.fields[k]) for k in sorted(self.fields, key=int)))
        return "%s{%s}" % (short, ", ".join("%s: %r" % kv for kv in self.fields.items()))


class Term(object):
    """Immutable symbolic term."""
    __slots__ = ("op", "args", "_h")

    def __init__(self, op, *args):
        self.op = op
        self.args = tuple(args)
        self._h = None

    def __eq__(self, o):
        return isinstance(o, Term) and self.op == o.op and self.args == o.args

    def __ne__(self, o):
        return not self.__eq__(o)

    def __hash__(self):
        if self._h is None:
            self._h = hash((self.op, tuple(freeze(a) for a in self.args)))
        return self._h

    def __repr__(self):
        if not self.args:
            return str(self.op)
        return "%s(%s)" % (self.op, ", ".join(repr(a) for a in self.args))


def freeze(v):
    if isinstance(v, (list, PyVec)):
        return tuple(freeze(x) for x in (v.items if isinstance(v, PyVec) else v))
    if isinstance(v, dict):
        return tuple(sorted((k, freeze(x)) for k, x in v.items()))
    if isinstance(v, tuple):
        return tuple(freeze(x) for x in v)
    return v


class PyVec(object):
    """Vec / VecDeque / slice."""
    __slots__ = ("items",)

    def __init__(self, items=None):
        self.items = list(items) if items is not None else []

    def __eq__(self, o):
        return isinstance(o, PyVec) and self.items == o.items

    def __hash__(self):
        return hash(freeze(self.items))

    def __repr__(self):
        return "vec%r" % (self.items,)


# coverage of evaluated functions (development aid): MSVERIF_COVERAGE=<dir> makes every process dump the def paths it
# evaluated to <dir>/<pid>.txt at exit
_COVERAGE = None
if os.environ.get("MSVERIF_COVERAGE"):
    _COVERAGE = set()
    os.makedirs(os.environ["MSVERIF_COVERAGE"], exist_ok=True)


class PyIter(object):
    """A Rust iterator modelled by an explicit item list + cursor."""
    __slots__ = ("items", "pos")

    def __init__(self, items):
        self.items = list(items)
        self.pos = 0

    def rest(self):
        return self.items[self.pos:]


class LazyIter(PyIter):
    """`iter.map(f)`: the closure runs when an element is pulled, as in Rust (a short-circuiting consumer such as
    `sum::<Option<_>>`, `all`, `find`, `collect::<Result<_,_>>` leaves the remaining side effects undone)"""
    __slots__ = ("src", "fn", "cache")

    def __init__(self, src, fn):
        self.src = src          # a list, or another LazyIter
        self.fn = fn
        self.cache = []
        self.pos = 0

    def total(self):
        return self.src.total() if isinstance(self.src, LazyIter) else len(self.src)

    def get(self, i):
        while len(self.cache) <= i:
            j = len(self.cache)
            x = self.src.get(j) if isinstance(self.src, LazyIter) else self.src[j]
            self.cache.append(self.fn(x))
        return self.cache[i]

    @property
    def items(self):
        n = self.total()
        if n:
            self.get(n - 1)
        return self.cache

    def pull(self):
        """the remaining elements, one at a time"""
        while self.pos < self.total():
            v = self.get(self.pos)
            self.pos += 1
            yield v


class Closure(object):
    __slots__ = ("path", "env", "machine", "tyenv")

    def __init__(self, path, env, tyenv=None):
        self.path = path
        self.env = env
        self.tyenv = tyenv

    def __repr__(self):
        return "closure<%s>" % self.path


class FnRef(object):
    __slots__ = ("callee",)

    def __init__(self, callee):
        self.callee = callee

    def __repr__(self):
        return "fn<%s>" % self.callee.get("def")

    def __eq__(self, o):
        return isinstance(o, FnRef) and self.callee.get("def") == o.callee.get("def")

    def __hash__(self):
        return hash(self.callee.get("def"))


class MutRef(object):
    """&mut place."""
    __slots__ = ("get", "set")

    def __init__(self, get, set):
        self.get = get
        self.set = set


class Panic(Exception):
    pass


class _Return(Exception):
    def __init__(self, v):
        self.v = v


class _Break(Exception):
    def __init__(self, v):
        self.v = v


class _Continue(Exception):
    pass


class Exhausted(Exception):
    """raised by the decision script when a path is infeasible/pruned"""
    pass


STD_VARIANTS = {
    "std::option::Option": ["None", "Some"],
    "std::result::Result": ["Ok", "Err"],
    "std::ops::ControlFlow": ["Continue", "Break"],
    "std::cmp::Ordering": ["Less", "Equal", "Greater"],
}

OPTION = "std::option::Option"
RESULT = "std::result::Result"
ORDERING = "std::cmp::Ordering"
CF = "std::ops::ControlFlow"


def some(v):
    return Adt(OPTION, "Some", {"0": v})


NONE = Adt(OPTION, "None")


def ok(v):
    return Adt(RESULT, "Ok", {"0": v})


def err(v):
    return Adt(RESULT, "Err", {"0": v})


def is_sym(v):
    return isinstance(v, Term)


def contains_sym(v):
    if isinstance(v, Term):
        return True
    if isinstance(v, Adt):
        return any(contains_sym(x) for x in v.fields.values())
    if isinstance(v, (tuple, list)):
        return any(contains_sym(x) for x in v)
    if isinstance(v, PyVec):
        return any(contains_sym(x) for x in v.items)
    return False


INT_RANGES = {
    "u8": (0, 2**8 - 1), "u16": (0, 2**16 - 1), "u32": (0, 2**32 - 1), "u64": (0, 2**64 - 1),
    "u128": (0, 2**128 - 1), "usize": (0, 2**64 - 1),
    "i8": (-2**7, 2**7 - 1), "i16": (-2**15, 2**15 - 1), "i32": (-2**31, 2**31 - 1),
    "i64": (-2**63, 2**63 - 1), "i128": (-2**127, 2**127 - 1), "isize": (-2**63, 2**63 - 1),
}


def dcopy(v):
    if type(v).__name__ == "PyMap":
        return type(v)([(dcopy(k), dcopy(x)) for k, x in v.pairs])
    if isinstance(v, Adt):
        return Adt(v.path, v.variant, {k: dcopy(x) for k, x in v.fields.items()})
    if isinstance(v, PyVec):
        return PyVec([dcopy(x) for x in v.items])
    if isinstance(v, list):
        return [dcopy(x) for x in v]
    return v


_CONST_CACHE = {}


class Machine(object):
    def __init__(self, facts, strict=True, hooks=None, max_depth=40, uninterpreted=None,
                 opaque_unknown=False):
        self.facts = facts
        self.strict = strict
        self.hooks = hooks or {}
        self.max_depth = max_depth
        self.depth = 0
        self.uninterpreted = uninterpreted or (lambda path, callee: False)
        self.opaque_unknown = opaque_unknown
        self.script = None       # decision script for explore mode
        self.trace = []          # decisions taken on this run
        self.field_hook = None   # called on tracked field reads
        self.called = set()      # function paths evaluated
        self.steps = 0
        self.max_steps = 5_000_000
        self.cur_call_ty = None
        self.constenv = [{}]
        self.tyenv = [{}]        # generic type parameter name -> concrete type (per frame)
        self.from_source = set()  # def paths whose built-in model is bypassed: the crate's own body is evaluated
        self.fork_logic = False  # symbolic && / || : fork instead of building a term
        self.vec_seed = None     # function(type string of a new Vec) -> initial items | None

    # ---- decisions -------------------------------------------------------
    def decide(self, term, where="", universe=None):
        if isinstance(term, bool):
            return term
        if self.script is None:
            raise Unsupported("branch on symbolic value %r" % (term,), where)
        return self.script.decide(term, universe)

    def ctor_of(self, path):
        if not path:
            return None
        if path in self.facts.adts and self.facts.adts[path]["kind"] == "struct":
            return (path, path.split("::")[-1])
        parent, _, name = path.rpartition("::")
        a = self.facts.adts.get(parent)
        if a is not None and any(v["name"] == name for v in a["variants"]):
            return (parent, name)
        if parent in STD_VARIANTS and name in STD_VARIANTS[parent]:
            return (parent, name)
        return None

    def variants_of(self, adt):
        a = self.facts.adts.get(adt)
        if a is not None:
            return [v["name"] for v in a["variants"]]
        return STD_VARIANTS.get(adt)

    # ---- calling ---------------------------------------------------------
    def call_path(self, path, args, callee=None):
        """Call a crate-local function by def path with evaluated args."""
        body = self.facts.bodies.get(path)
        if body is None or body.get("thir") is None:
            raise Unsupported("no body for callee %s" % path)
        if self.depth >= self.max_depth:
            raise Unsupported("call depth exceeded at %s" % path)
        self.called.add(path)
        if _COVERAGE is not None and path not in _COVERAGE:
            _COVERAGE.add(path)
            try:
                with open(os.path.join(os.environ["MSVERIF_COVERAGE"], "%d.txt" % os.getpid()), "a") as fh:
                    fh.write(path + "\n")
            except OSError:
                pass
        if self.depth == 0:
            self.steps = 0
        th = body["thir"]
        env = {}
        cenv = {}
        fn = self.facts.fns.get(path)
        if fn is not None and callee is not None and fn.get("const_generics") and callee.get("cargs"):
            names = fn["const_generics"]
            vals = callee["cargs"]
            if len(names) == len(vals):
                for nme, v in zip(names, vals):
                    cenv[nme] = self.const_arg(v)
        tenv = self.bind_generics(path, fn, callee)
        params = th["params"]
        if len(params) != len(args):
            raise Unsupported("arity mismatch calling %s (%d params, %d args)" % (path, len(params), len(args)))
        for p, a in zip(params, args):
            if p["pat"] is None:
                continue
            if not self.match(p["pat"], a, env):
                raise Unsupported("parameter pattern did not match in %s" % path)
        self.constenv.append(cenv)
        self.tyenv.append(tenv)
        self.depth += 1
        try:
            try:
                return self.eval(th["body"], env)
            except _Return as r:
                return r.v
        finally:
            self.depth -= 1
            self.constenv.pop()
            self.tyenv.pop()

    # ---- generic type parameters ---------------------------------------------
    def subst_callee(self, callee):
        env = self.tyenv[-1]
        if not env:
            return callee
        c = dict(callee)
        if c.get("targs"):
            c["targs"] = [subst_type(t, env) for t in c["targs"]]
        if c.get("self_ty"):
            c["self_ty"] = subst_type(c["self_ty"], env)
        return c

    def bind_generics(self, path, fn, callee):
        """type parameter environment of the callee frame (callee already substituted)"""
        if fn is None or not fn.get("generics") or callee is None:
            return {}
        gens = fn["generics"]
        env = {}
        targs = callee.get("targs") or []
        if callee.get("def") == path and len(targs) == len(gens):
            env = dict(zip(gens, targs))
        elif callee.get("default_for"):
            env = {"Self": callee["default_for"]}
        else:
            pat = impl_self_pattern(callee.get("resolved_container") or "")
            st = callee.get("self_ty")
            if pat and st:
                unify_type(pat, st, set(gens), env)
            # method-level generics of a trait method: the trailing type arguments
            rem = [g for g in gens if g not in env]
            if rem and len(targs) > len(rem):
                env.update(zip(rem, targs[-len(rem):]))
        return {k: v for k, v in env.items() if v != k and v not in gens}

    def resolve_trait_call(self, callee):
        """an unresolved trait method whose Self type became concrete through the type environment"""
        tr, name, st = callee.get("trait"), callee.get("name"), callee.get("self_ty")
        if not (tr and name and st) or callee.get("resolved"):
            return None
        head = type_head(st)
        imps = self.facts.impls_of(trait=tr, self_adt=head)
        if len(imps) > 1:
            # a generic trait implemented several times for the type (Translator<A>, Translator<B>): the impl whose trait
            # arguments are the call's (substituted) type arguments
            targs = [t for t in (callee.get("targs") or []) if t != st]
            pick = [i for i in imps if targs and all(("<" + t + ">") in (i.get("trait_str") or "") or ("<" + t + ",") in (i.get("trait_str") or "")
                                                     or (", " + t + ">") in (i.get("trait_str") or "") for t in targs[:1])]
            if len(pick) == 1:
                imps = pick
            elif len(pick) != 1:
                return None      # decided later from the argument's run-time type
        for imp in imps:
            for it in imp["items"]:
                if it["name"] == name:
                    c = dict(callee)
                    c["resolved"] = it["path"]
                    c["resolved_container"] = "<impl %s for %s>" % (tr, imp.get("self_ty") or head)
                    return c
            d = callee.get("def")
            if d in self.facts.bodies and self.facts.bodies[d].get("thir"):
                c = dict(callee)
                c["resolved"] = d
                c["default_for"] = st
                return c
        return None

    def const_arg(self, text):
        """value of a const generic argument as printed by rustc (`20`, `MAX`, `0_usize`)"""
        m = re.match(r"^(-?\d+)(_?[iu](8|16|32|64|128|size))?$", str(text).strip())
        if m:
            return int(m.group(1))
        for fr in reversed(self.constenv):
            if text in fr:
                return fr[text]
        return Term("const_param", text)

    def e_const_param(self, e, env):
        name = e.get("name")
        for fr in reversed(self.constenv[-1:]):
            if name in fr:
                return fr[name]
        if self.strict:
            raise Unsupported("const generic parameter %s has no known value" % name, e.get("sp", ""))
        return Term("const_param", name)

    def call_value(self, f, args, where=""):
        if isinstance(f, MutRef):
            f = f.get()
        if isinstance(f, Closure):
            body = self.facts.bodies.get(f.path)
            if body is None:
                raise Unsupported("no body for closure %s" % f.path, where)
            th = body["thir"]
            params = [p for p in th["params"]]
            # first param of a closure body is the closure itself
            cparams = params[1:] if len(params) == len(args) + 1 else params
            if len(cparams) != len(args):
                raise Unsupported("closure arity mismatch %s" % f.path, where)
            cenv = ChildEnv(f.env)
            for p, a in zip(cparams, args):
                if p["pat"] is not None and not self.match(p["pat"], a, cenv):
                    raise Unsupported("closure parameter pattern mismatch %s" % f.path, where)
            self.depth += 1
            self.tyenv.append(f.tyenv if f.tyenv is not None else self.tyenv[-1])
            try:
                try:
                    return self.eval(th["body"], cenv)
                except _Return as r:
                    return r.v
            finally:
                self.depth -= 1
                self.tyenv.pop()
        if isinstance(f, FnRef):
            return self.call_callee(f.callee, args, where)
        if isinstance(f, Term):
            return Term("apply", f, *args)
        if callable(f) and not isinstance(f, (Adt, PyVec)):
            return f(*args)           # a Python model of an opaque callable supplied by the harness
        raise Unsupported("call of non-function value %r" % (f,), where)

    def call_callee(self, callee, args, where=""):
        from . import builtins
        builtins._CUR_MACHINE[0] = self
        if self.tyenv[-1]:
            callee = self.subst_callee(callee)
            rc = self.resolve_trait_call(callee)
            if rc is not None:
                callee = rc
            elif callee.get("trait") and not callee.get("resolved") and callee.get("self_ty"):
                # a foreign implementation named by the substituted Self type, if the harness models it
                cand = "<%s as %s>::%s" % (callee["self_ty"], callee["trait"], callee.get("name"))
                if cand in self.hooks or cand in builtins.TABLE:
                    callee = dict(callee)
                    callee["resolved"] = cand
        d = callee.get("def")
        r = callee.get("resolved")
        for p in (r, d):
            if p and p in self.hooks:
                res = self.hooks[p](self, args, callee)
                if res is not builtins.NOT_HANDLED:     # a hook may decline (e.g. it models one Self type only)
                    return res
        for p in (r, d):
            if p and self.uninterpreted(p, callee):
                return Term("call", p, *args)
        for p in (r, d):
            if p and p in builtins.TABLE and p not in self.from_source:
                return builtins.TABLE[p](self, args, callee)
        tr = callee.get("trait")
        key = (tr, callee.get("name")) if tr else None
        if key in builtins.SEMANTIC_FIRST:
            res = builtins.TRAIT_TABLE[key](self, args, callee)
            if res is not builtins.NOT_HANDLED:
                return res
        elif key in builtins.TRAIT_TABLE:
            res = builtins.TRAIT_TABLE[key](self, args, callee)
            if res is not builtins.NOT_HANDLED:
                return res
        for p in (r, d):
            if p and p in self.facts.bodies and self.facts.bodies[p].get("thir"):
                return self.call_path(p, args, callee)
        # tuple-variant / tuple-struct constructors used as functions
        ctor = self.ctor_of(d)
        if ctor is not None:
            return Adt(ctor[0], ctor[1], {str(i): a for i, a in enumerate(args)})
        # dynamic dispatch of an unresolved crate-local trait method on a concrete receiver
        if tr and not r and args:
            recv = args[0]
            while isinstance(recv, MutRef):
                recv = recv.get()
            if isinstance(recv, Adt):
                imps = self.facts.impls_of(trait=tr, self_adt=recv.path)
                if len(imps) > 1 and len(args) > 1:
                    # several impls of one generic trait for the receiver (Translator<A> and Translator<B>): the one
                    # whose trait argument is the type of the first argument
                    a1 = args[1]
                    while isinstance(a1, MutRef):
                        a1 = a1.get()
                    if isinstance(a1, Adt):
                        pick = [i for i in imps if ("<" + a1.path + ">") in (i.get("trait_str") or "") or
                                ("<" + a1.path + "<") in (i.get("trait_str") or "")]
                        if len(pick) == 1:
                            imps = pick
                for imp in imps:
                    for it in imp["items"]:
                        if it["name"] == callee.get("name") and it["path"] in self.facts.bodies:
                            return self.call_path(it["path"], args, callee)
        if not self.strict or self.opaque_unknown:
            return Term("call", r or d, *args)
        raise Unsupported("call to unmodelled function %s" % (r or d), where)

    # ---- patterns ----------------------------------------------------------
    def match(self, pat, v, env):
        """Try to match; binds into env. Returns bool. Symbolic values make
        refutable patterns ask the decision script."""
        k = pat["k"]
        if isinstance(v, MutRef) and k not in ("bind", "wild"):
            v = v.get()
        if k == "wild" or k == "missing":
            return True
        if k == "bind":
            if "sub" in pat:
                if not self.match(pat["sub"], v, env):
                    return False
            env[pat["id"]] = v
            return True
        if k == "deref" or k == "deref_pattern":
            return self.match(pat["sub"], v, env)
        if k == "variant":
            if isinstance(v, Term):
                t = Term("is", v, pat["variant"])
                if not self.decide(t, universe=self.variants_of(pat["adt"])):
                    return False
                for s in pat["subs"]:
                    if not self.match(s["pat"], Term("vfield", v, pat["variant"], s["name"]), env):
                        return False
                return True
            if not isinstance(v, Adt):
                raise Unsupported("variant pattern on %r" % (v,))
            if v.variant != pat["variant"]:
                return False
            for s in pat["subs"]:
                if s["name"] not in v.fields:
                    raise Unsupported("missing field %s in %r" % (s["name"], v))
                if not self.match(s["pat"], v.fields[s["name"]], env):
                    return False
            return True
        if k == "leaf":
            for s in pat["subs"]:
                if isinstance(v, tuple):
                    sv = v[s["idx"]]
                elif isinstance(v, Adt):
                    sv = v.fields[s["name"]]
                elif isinstance(v, Term):
                    sv = Term("field", v, s["name"])
                else:
                    raise Unsupported("leaf pattern on %r" % (v,))
                if not self.match(s["pat"], sv, env):
                    return False
            return True
        if k == "const":
            if "int" in pat:
                c = pat["int"]
                tys = self.facts.ty(pat["ty"])
                if tys == "bool":
                    c = bool(c)
            elif "str" in pat:
                c = pat["str"]
            elif pat_str(pat) is not None:
                c = pat_str(pat)
            else:
                raise Unsupported("constant pattern %s" % pat.get("text"))
            if isinstance(v, Term):
                if isinstance(c, bool):
                    return self.decide(v) == c
                return self.decide(Term("eq", v, c))
            if isinstance(v, str) and len(v) == 1 and isinstance(c, int) and not isinstance(c, bool):
                return ord(v) == c          # char constant pattern (dumped as its scalar value)
            return v == c
        if k == "range":
            lo, hi, incl = parse_range(pat["text"])
            if isinstance(v, Term):
                return self.decide(Term("in_range", v, lo, hi, incl))
            if lo is not None and v < lo:
                return False
            if hi is not None and (v > hi or (v == hi and not incl)):
                return False
            return True
        if k == "or":
            for p in pat["pats"]:
                e2 = {}
                if self.match(p, v, e2):
                    env.update(e2)
                    return True
            return False
        if k == "slice":
            items = v.items if isinstance(v, PyVec) else v
            if isinstance(items, Term):
                raise Unsupported("slice pattern on symbolic value")
            pre, suf, mid = pat["prefix"], pat["suffix"], pat["slice"]
            if mid is None:
                if len(items) != len(pre) + len(suf):
                    return False
            elif len(items) < len(pre) + len(suf):
                return False
            for p, x in zip(pre, items):
                if not self.match(p, x, env):
                    return False
            if suf:
                for p, x in zip(suf, items[len(items) - len(suf):]):
                    if not self.match(p, x, env):
                        return False
            if mid is not None:
                if not self.match(mid, PyVec(items[len(pre):len(items) - len(suf)]), env):
                    return False
            return True
        raise Unsupported("pattern kind %s" % k)

    # ---- places ------------------------------------------------------------
    def place_set(self, e, val, env):
        k = e["k"]
        if k == "var" or k == "upvar":
            try:
                cur = lookup(env, e["id"], e.get("name"))
            except Unsupported:
                cur = None   # declared without initialiser
            if isinstance(cur, MutRef) and self.facts.ty(e["ty"]).startswith("&mut") is False:
                cur.set(val)
            else:
                assign(env, e["id"], val)
            return
        if k == "deref":
            inner = self.eval(e["e"], env)
            if isinstance(inner, MutRef):
                inner.set(val)
                return
            # transparent reference to an aggregate: mutate in place
            if isinstance(inner, Adt) and isinstance(val, Adt):
                inner.path, inner.variant, inner.fields = val.path, val.variant, val.fields
                return
            if isinstance(inner, PyVec) and isinstance(val, PyVec):
                inner.items = val.items
                return
            if type(inner).__name__ == "PyMap" and type(val).__name__ == "PyMap":
                inner.pairs = val.pairs
                return
            raise Unsupported("assignment through non-&mut reference", e.get("sp", ""))
        if k == "field":
            base = self.eval_place(e["e"], env)
            if isinstance(base, Adt):
                base.fields[e["name"]] = val
                return
            if isinstance(base, tuple):
                idx = e.get("idx")
                if idx is None:
                    idx = int(e["name"])
                new = tuple(val if i == idx else x for i, x in enumerate(base))
                self.place_set(e["e"], new, env)
                return
            raise Unsupported("field assignment on %r" % (base,), e.get("sp", ""))
        if k == "index":
            base = self.eval_place(e["e"], env)
            i = self.eval(e["i"], env)
            items = base.items if isinstance(base, PyVec) else base
            if isinstance(i, Term):
                raise Unsupported("symbolic index assignment", e.get("sp", ""))
            if i < 0 or i >= len(items):
                raise Panic("index out of bounds")
            items[i] = val
            return
        raise Unsupported("assignment to %s" % k, e.get("sp", ""))

    def eval_place(self, e, env):
        """Evaluate a place expression without copying (aliasing the object)."""
        v = self.eval(e, env, place=True)
        if isinstance(v, MutRef):
            v = v.get()
        return v

    # ---- expressions ---------------------------------------------------------
    def eval(self, e, env, place=False):
        self.steps += 1
        if self.steps > self.max_steps:
            raise Unsupported("step budget exceeded")
        k = e["k"]
        m = getattr(self, "e_" + k, None)
        if m is None:
            raise Unsupported("expression kind %s" % k, e.get("sp", ""))
        return m(e, env)

    def e_block(self, e, env):
        b = e["b"]
        return self.run_block(b, env)

    def run_block(self, b, env):
        for s in b["stmts"]:
            if s["s"] == "expr":
                self.eval(s["e"], env)
            else:
                if s["init"] is None:
                    continue
                v = self.eval(s["init"], env)
                v = self.byvalue(v, s["init"])
                if not self.match(s["pat"], v, env):
                    if s.get("else") is not None:
                        self.run_block(s["else"], env)
                        raise Unsupported("let-else block fell through", s.get("sp", ""))
                    raise Unsupported("irrefutable let pattern failed", s.get("sp", ""))
        if b["expr"] is not None:
            return self.eval(b["expr"], env)
        return ()

    def byvalue(self, v, e):
        """Value semantics for aggregates read out of places."""
        if isinstance(v, (Adt, PyVec)) and e["k"] in ("var", "upvar", "field", "deref", "index"):
            tys = self.facts.ty(e["ty"])
            if tys.startswith("&"):
                return v
            return dcopy(v)
        return v

    def e_lit(self, e, env):
        if "int" in e:
            v = e["int"]
            return -v if e.get("neg") else v
        if "bool" in e:
            return e["bool"]
        if "str" in e:
            return e["str"]
        if "char" in e:
            return e["char"]
        if "bytes" in e:
            return PyVec(e["bytes"])
        if "other" in e:
            mo = re.match(r'Float\("([^"]+)"', e["other"])
            if mo:
                v = float(mo.group(1).replace("_", ""))
                return -v if e.get("neg") else v
        raise Unsupported("literal %r" % (e,), e.get("sp", ""))

    def e_var(self, e, env):
        return lookup(env, e["id"], e.get("name"))

    e_upvar = e_var

    def e_field(self, e, env):
        base = self.eval(e["e"], env)
        if isinstance(base, MutRef):
            base = base.get()
        name = e["name"]
        if isinstance(base, Adt):
            if name not in base.fields:
                raise Unsupported("no field %s on %r" % (name, base), e.get("sp", ""))
            v = base.fields[name]
            if self.field_hook is not None:
                v = self.field_hook(base, name, v)
            return v
        if isinstance(base, tuple):
            return base[e["idx"]]
        if isinstance(base, Term):
            return Term("field", base, name)
        raise Unsupported("field %s of %r" % (name, base), e.get("sp", ""))

    def e_deref(self, e, env):
        v = self.eval(e["e"], env)
        if isinstance(v, MutRef):
            return v.get()
        return v

    def e_borrow(self, e, env):
        if e.get("mut"):
            inner = e["e"]
            ik = inner["k"]
            cur = self.eval(inner, env, place=True)
            if isinstance(cur, MutRef):
                return cur
            if isinstance(cur, (PyVec, PyIter)):
                return cur  # containers are mutated in place through their methods
            if ik in ("var", "upvar", "field", "index", "deref"):
                return MutRef(lambda: self.eval(inner, env, place=True),
                              lambda val: self.place_set(inner, val, env))
            return cur
        return self.eval(e["e"], env, place=True)

    def e_raw_borrow(self, e, env):
        return self.eval(e["e"], env)

    def e_coerce(self, e, env):
        return self.eval(e["e"], env)

    def e_never_to_any(self, e, env):
        return self.eval(e["e"], env)

    def e_cast(self, e, env):
        v = self.eval(e["e"], env)
        tys = self.facts.ty(e["ty"])
        if isinstance(v, Term):
            return Term("cast", v, tys)
        if tys in ("f64", "f32") and isinstance(v, (int, float)) and not isinstance(v, bool):
            return float(v)
        if isinstance(v, float) and tys in INT_RANGES:
            lo, hi = INT_RANGES[tys]
            if v != v:
                return 0
            return max(lo, min(hi, int(v)))     # saturating float -> int cast
        if isinstance(v, bool):
            return int(v) if tys in INT_RANGES else v
        if isinstance(v, int) and tys in INT_RANGES:
            lo, hi = INT_RANGES[tys]
            width = hi - lo + 1
            v = (v - lo) % width + lo
            return v
        if isinstance(v, Adt) and tys in INT_RANGES:
            # fieldless enum → discriminant
            adt = self.facts.adts.get(v.path)
            if adt is None:
                raise Unsupported("cast of foreign enum %r" % (v,), e.get("sp", ""))
            for var in adt["variants"]:
                if var["name"] == v.variant:
                    return var["index"]
        if isinstance(v, str) and tys in INT_RANGES and len(v) == 1:
            return ord(v)
        if isinstance(v, int) and tys == "char" and 0 <= v < 256:
            return chr(v)
        raise Unsupported("cast of %r to %s" % (v, tys), e.get("sp", ""))

    def e_if(self, e, env):
        c = self.eval(e["cond"], env)
        if isinstance(c, Term):
            c = self.decide(c, e.get("sp", ""))
        if c:
            return self.eval(e["then"], env)
        if e["else"] is not None:
            return self.eval(e["else"], env)
        return ()

    def e_let(self, e, env):
        v = self.eval(e["e"], env)
        return self.match(e["pat"], v, env)

    def e_logic(self, e, env):
        l = self.eval(e["l"], env)
        if isinstance(l, Term) and not self.strict and not self.fork_logic:
            r = self.eval(e["r"], env)
            if isinstance(r, bool):
                if e["op"] == "And":
                    return l if r else False
                return True if r else l
            return Term("and" if e["op"] == "And" else "or", l, r)
        if isinstance(l, Term):
            l = self.decide(l, e.get("sp", ""))
        if e["op"] == "And":
            if not l:
                return False
            r = self.eval(e["r"], env)
            return r
        else:
            if l:
                return True
            return self.eval(e["r"], env)

    def e_un(self, e, env):
        v = self.eval(e["e"], env)
        op = e["op"]
        if isinstance(v, Term):
            if op == "Not" and v.op == "not":
                return v.args[0]
            return Term(op.lower(), v)
        if op == "Not":
            if isinstance(v, bool):
                return not v
            tys = self.facts.ty(e["ty"])
            lo, hi = INT_RANGES[tys]
            return hi - v if lo == 0 else ~v
        if op == "Neg":
            return -v
        raise Unsupported("unary %s" % op, e.get("sp", ""))

    def e_bin(self, e, env):
        l = self.eval(e["l"], env)
        r = self.eval(e["r"], env)
        return self.binop(e["op"], l, r, self.facts.ty(e["l"]["ty"]), e.get("sp", ""))

    def binop(self, op, l, r, tys, where=""):
        if isinstance(l, MutRef):
            l = l.get()
        if isinstance(r, MutRef):
            r = r.get()
        if isinstance(l, Term) or isinstance(r, Term):
            return Term(op.lower(), l, r)
        if op in ("Eq", "Ne", "Lt", "Le", "Gt", "Ge"):
            if isinstance(l, Adt) and op not in ("Eq", "Ne"):
                raise Unsupported("ordering comparison of ADTs", where)
            if op == "Eq":
                return l == r
            if op == "Ne":
                return l != r
            if op == "Lt":
                return l < r
            if op == "Le":
                return l <= r
            if op == "Gt":
                return l > r
            return l >= r
        if isinstance(l, bool) and isinstance(r, bool):
            if op == "BitAnd":
                return l and r
            if op == "BitOr":
                return l or r
            if op == "BitXor":
                return l != r
        if isinstance(l, float) or isinstance(r, float):
            # f64 arithmetic (IEEE semantics of Python floats; no overflow panics)
            if op in ("Add", "AddWithOverflow"):
                return l + r
            if op == "Sub":
                return l - r
            if op == "Mul":
                return l * r
            if op == "Div":
                if r == 0:
                    return float("inf") if l > 0 else (float("-inf") if l < 0 else float("nan"))
                return l / r
            raise Unsupported("float operation %s" % op, where)
        if not isinstance(l, int) or not isinstance(r, int):
            raise Unsupported("binary %s on %r, %r" % (op, l, r), where)
        if op in ("Add", "AddWithOverflow"):
            v = l + r
        elif op == "Sub":
            v = l - r
        elif op == "Mul":
            v = l * r
        elif op == "Div":
            if r == 0:
                raise Panic("division by zero")
            v = abs(l) // abs(r) * (1 if (l >= 0) == (r >= 0) else -1)
        elif op == "Rem":
            if r == 0:
                raise Panic("remainder by zero")
            v = abs(l) % abs(r) * (1 if l >= 0 else -1)
        elif op == "BitAnd":
            return l & r
        elif op == "BitOr":
            return l | r
        elif op == "BitXor":
            return l ^ r
        elif op == "Shl":
            lo, hi = INT_RANGES.get(tys, (0, 2**64 - 1))
            return (l << r) & hi if lo == 0 else l << r
        elif op == "Shr":
            return l >> r
        else:
            raise Unsupported("binary op %s" % op, where)
        rng = INT_RANGES.get(tys)
        if rng and not (rng[0] <= v <= rng[1]):
            raise Panic("arithmetic overflow (%s %s %s : %s)" % (l, op, r, tys))
        return v

    def e_assign(self, e, env):
        v = self.eval(e["r"], env)
        v = self.byvalue(v, e["r"])
        self.place_set(e["l"], v, env)
        return ()

    def e_assign_op(self, e, env):
        cur = self.eval(e["l"], env)
        if isinstance(cur, MutRef):
            cur = cur.get()
        r = self.eval(e["r"], env)
        op = e["op"].replace("Assign", "")
        v = self.binop(op, cur, r, self.facts.ty(e["l"]["ty"]), e.get("sp", ""))
        self.place_set(e["l"], v, env)
        return ()

    def e_tuple(self, e, env):
        return tuple(self.byvalue(self.eval(x, env), x) for x in e["es"])

    def e_array(self, e, env):
        return PyVec([self.byvalue(self.eval(x, env), x) for x in e["es"]])

    def e_repeat(self, e, env):
        v = self.eval(e["e"], env)
        m = re.match(r"^(\d+)", e["count"])
        if not m:
            raise Unsupported("array repeat count %s" % e["count"], e.get("sp", ""))
        return PyVec([dcopy(v) for _ in range(int(m.group(1)))])

    def e_adt(self, e, env):
        fields = {}
        for f in e["fields"]:
            fields[f["name"]] = self.byvalue(self.eval(f["e"], env), f["e"])
        if "base" in e:
            if e["base"] == "default_fields":
                raise Unsupported("default field values", e.get("sp", ""))
            base = self.eval(e["base"], env)
            if isinstance(base, MutRef):
                base = base.get()
            if isinstance(base, Adt):
                for k, v in base.fields.items():
                    if k not in fields:
                        fields[k] = dcopy(v)
            elif isinstance(base, Term):
                adt = self.facts.adts.get(e["adt"])
                if adt is None:
                    raise Unsupported("functional update of foreign struct", e.get("sp", ""))
                for fd in adt["variants"][e["vidx"]]["fields"]:
                    if fd["name"] not in fields:
                        fields[fd["name"]] = Term("field", base, fd["name"])
            else:
                raise Unsupported("functional update base %r" % (base,), e.get("sp", ""))
        return Adt(e["adt"], e["variant"], fields)

    def e_match(self, e, env):
        v = self.eval(e["scrut"], env, place=True)
        for arm in e["arms"]:
            b = ChildEnv(env)
            if not self.match(arm["pat"], v, b):
                continue
            if arm["guard"] is not None:
                g = self.eval(arm["guard"], b)
                if isinstance(g, Term):
                    g = self.decide(g, arm.get("sp", ""))
                if not g:
                    continue
            b.commit()
            return self.eval(arm["body"], env)
        raise Unsupported("no match arm applies for %r" % (v,), e.get("sp", ""))

    def e_loop(self, e, env):
        n = 0
        while True:
            n += 1
            if n > 100000:
                raise Unsupported("loop bound exceeded", e.get("sp", ""))
            try:
                self.eval(e["body"], env)
            except _Break as b:
                return b.v
            except _Continue:
                continue

    def e_break(self, e, env):
        v = self.eval(e["e"], env) if e["e"] is not None else ()
        raise _Break(v)

    def e_continue(self, e, env):
        raise _Continue()

    def e_return(self, e, env):
        v = self.eval(e["e"], env) if e["e"] is not None else ()
        raise _Return(self.byvalue(v, e["e"]) if e["e"] is not None else v)

    def e_call(self, e, env):
        args = [self.byvalue(self.eval(a, env), a) for a in e["args"]]
        if "callee" in e:
            self.cur_call_ty = e["ty"]
            return self.call_callee(e["callee"], args, e.get("sp", ""))
        f = self.eval(e["fun"], env)
        return self.call_value(f, args, e.get("sp", ""))

    def e_zst(self, e, env):
        if "callee" in e:
            return FnRef(self.subst_callee(e["callee"]))
        return ()

    def e_closure(self, e, env):
        return Closure(e["def"], env, self.tyenv[-1])

    def e_const(self, e, env):
        from . import builtins
        c = e["callee"]
        if self.tyenv[-1]:
            c = self.subst_callee(c)
            rc = self.resolve_trait_call(c)
            if rc is not None:
                c = rc
                cv = self.facts.consts.get(c["resolved"])
                if cv is not None and cv.get("value") and not self.uninterpreted(c["resolved"], c):
                    from . import constval
                    try:
                        return dcopy(constval.parse(cv["value"]))
                    except constval.ParseError:
                        pass
        for p in (c.get("resolved"), c.get("def")):
            # foreign constants whose type the std / rust-bitcoin models represent differently (a lock time as its
            # consensus integer): the explicit model wins over rustc's structural value
            if p and p in builtins.CONSTS and p not in self.hooks:
                return builtins.CONSTS[p]
        if "value" in e and not self.uninterpreted(c.get("def"), c):
            from . import constval
            key = e["value"]
            if key not in _CONST_CACHE:
                try:
                    _CONST_CACHE[key] = constval.parse(key)
                except constval.ParseError:
                    _CONST_CACHE[key] = None
            if _CONST_CACHE[key] is not None:
                return dcopy(_CONST_CACHE[key])
        for p in (c.get("resolved"), c.get("def")):
            if p and p in self.hooks:
                return self.hooks[p](self, [], c)
        for p in (c.get("resolved"), c.get("def")):
            if p and self.uninterpreted(p, c):
                return Term("const", p)
        for p in (c.get("resolved"), c.get("def")):
            if p and p in builtins.CONSTS:
                return builtins.CONSTS[p]
        for p in (c.get("resolved"), c.get("def")):
            if p and p in self.facts.bodies and self.facts.bodies[p].get("thir"):
                th = self.facts.bodies[p]["thir"]
                self.depth += 1
                try:
                    return self.eval(th["body"], {})
                finally:
                    self.depth -= 1
        if not self.strict or self.opaque_unknown:
            return Term("const", c.get("resolved") or c.get("def"))
        raise Unsupported("constant %s" % c.get("def"), e.get("sp", ""))

    def e_static(self, e, env):
        v = e.get("value")
        sty = e.get("static_ty", "")
        if v and v.startswith("bytes:"):
            raw = bytes.fromhex(v[6:])
            if sty == "bitcoin::Opcode" and len(raw) == 1:
                return Adt("bitcoin::Opcode", "Opcode", {"code": raw[0]})
            if sty in INT_RANGES:
                return int.from_bytes(raw, "little", signed=sty.startswith("i"))
            if sty.startswith("[u8;"):
                return PyVec(list(raw))
        if not self.strict:
            return Term("static", e.get("def"))
        raise Unsupported("static %s" % e.get("def"), e.get("sp", ""))

    def e_index(self, e, env):
        base = self.eval(e["e"], env, place=True)
        if isinstance(base, MutRef):
            base = base.get()
        i = self.eval(e["i"], env)
        if isinstance(base, Term) or isinstance(i, Term):
            return Term("index", base, i)
        if hasattr(base, "kind") and hasattr(base, "extra") and getattr(self, "tok_index", None) is not None:
            if isinstance(i, int) and i >= base.length:
                raise Panic("index out of bounds: %d of %d" % (i, base.length))
            return self.tok_index(base, i)
        items = base.items if isinstance(base, PyVec) else base
        if isinstance(i, Adt) and i.path.startswith("std::ops::Range"):
            lo = i.fields.get("start", 0)
            hi = i.fields.get("end", len(items))
            if i.path.endswith("RangeInclusive"):
                hi += 1
            if lo > hi or hi > len(items):
                raise Panic("slice index out of range")
            return PyVec(items[lo:hi])
        if i < 0 or i >= len(items):
            raise Panic("index out of bounds: %d of %d" % (i, len(items)))
        return items[i]


class ChildEnv(dict):
    """Scratch scope for pattern bindings that are only committed when the arm
    is taken."""

    def __init__(self, parent):
        dict.__init__(self)
        self.parent = parent

    def commit(self):
        p = self.parent
        for k, v in self.items():
            p[k] = v

    def __missing__(self, k):
        return self.parent[k]

    def __contains__(self, k):
        return dict.__contains__(self, k) or k in self.parent


def lookup(env, vid, name=None):
    e = env
    while True:
        if dict.__contains__(e, vid):
            return dict.__getitem__(e, vid)
        if isinstance(e, ChildEnv):
            e = e.parent
            continue
        raise Unsupported("unbound variable %s (%s)" % (name, vid))


def assign(env, vid, val):
    e = env
    while True:
        if dict.__contains__(e, vid):
            dict.__setitem__(e, vid, val)
            return
        if isinstance(e, ChildEnv):
            e = e.parent
            continue
        dict.__setitem__(env, vid, val)  # first assignment of a declared-only local
        return


def parse_range(text):
    m = re.match(r"^\s*(-?[\w']+)?\s*(\.\.=|\.\.)\s*(-?[\w']+)?\s*$", text)
    if not m:
        raise Unsupported("range pattern %s" % text)

    def num(s):
        if s is None:
            return None
        s = re.sub(r"_?(u|i)(8|16|32|64|128|size)$", "", s)
        if s.startswith("'"):
            return s.strip("'")
        return int(s)

    return num(m.group(1)), num(m.group(3)), m.group(2) == "..="


# --------------------------------------------------------------------------
# exploration of symbolic branches by re-execution

class Script(object):
    def __init__(self, prefix, assume=None):
        self.prefix = list(prefix)
        self.taken = []   # (term, decision, forced)
        self.assume = assume  # optional function(term, taken) -> bool|None settling decisions

    def decide(self, term, universe=None):
        # consistent answers for a repeated question on the same path
        for t, d, _ in self.taken:
            if t == term:
                return d
        if term.op == "is":
            # variant tests on one scrutinee are mutually exclusive and exhaustive
            v, variant = term.args
            refuted = set()
            for t, d, _ in self.taken:
                if t.op == "is" and t.args[0] == v:
                    if d:
                        self.taken.append((term, False, True))
                        return False
                    refuted.add(t.args[1])
            if universe is not None and set(universe) - refuted == {variant}:
                self.taken.append((term, True, True))
                return True
        if self.assume is not None:
            a = self.assume(term, self.taken)
            if a is not None:
                self.taken.append((term, a, True))
                return a
        i = sum(1 for x in self.taken if not x[2])
        d = self.prefix[i] if i < len(self.prefix) else True
        self.taken.append((term, d, False))
        return d

    def free_decisions(self):
        return [(t, d) for (t, d, f) in self.taken if not f]


def explore(machine, thunk, assume=None, max_paths=4096, include_forced=False):
    """Run thunk() under every decision sequence. Yields (conditions, result)
    where result is a value, ('panic', msg)."""
    out = []
    work = [[]]
    seen = 0
    while work:
        prefix = work.pop()
        seen += 1
        if seen > max_paths:
            raise Unsupported("path budget exceeded (%d)" % max_paths)
        sc = Script(prefix, assume)
        machine.script = sc
        try:
            try:
                res = thunk()
            except Panic as p:
                res = ("panic", str(p))
            except Exhausted:
                res = None
        finally:
            machine.script = None
        free = sc.free_decisions()
        # schedule alternatives for decisions beyond the prefix
        for j in range(len(prefix), len(free)):
            alt = [d for _, d in free[:j]] + [not free[j][1]]
            work.append(alt)
        if res is not None:
            # forced decisions are assumptions of the exploration, not branches of the program
            out.append(([(t, d) for (t, d, forced) in sc.taken if not forced or include_forced], res))
    return out
