"""Parser for rustc's pretty-printed constant values (as dumped by factgen)."""

import re

from .interp import Adt, PyVec

TOK = re.compile(r"\s*(::|b\"(?:[^\"\\]|\\.)*\"|[A-Za-z_][A-Za-z0-9_]*|-?\d[\d_]*(?:_?[iu](?:8|16|32|64|128|size))?|\"(?:[^\"\\]|\\.)*\"|'(?:[^'\\]|\\.)'|[{}()\[\],:<>&*;])")

MAXES = {"usize::MAX": 2**64 - 1, "u64::MAX": 2**64 - 1, "u32::MAX": 2**32 - 1, "u16::MAX": 2**16 - 1,
         "u8::MAX": 255, "i64::MAX": 2**63 - 1, "i32::MAX": 2**31 - 1, "i64::MIN": -2**63, "i32::MIN": -2**31}


class ParseError(Exception):
    pass


def tokenize(s):
    out = []
    pos = 0
    while pos < len(s):
        m = TOK.match(s, pos)
        if not m:
            if s[pos:].strip() == "":
                break
            raise ParseError("cannot tokenize %r at %d" % (s, pos))
        out.append(m.group(1))
        pos = m.end()
    return out


def parse(text):
    toks = tokenize(text)
    v, i = _value(toks, 0)
    if i != len(toks):
        raise ParseError("trailing tokens in %r" % text)
    return v


def _path(toks, i):
    parts = []
    while i < len(toks) and (re.match(r"[A-Za-z_]", toks[i]) or toks[i] == "::"):
        parts.append(toks[i])
        i += 1
        # skip generic args
        if i < len(toks) and toks[i] == "<":
            depth = 0
            while i < len(toks):
                if toks[i] == "<":
                    depth += 1
                elif toks[i] == ">":
                    depth -= 1
                    if depth == 0:
                        i += 1
                        break
                i += 1
    return "".join(parts), i


def _value(toks, i):
    t = toks[i]
    if t in ("&", "*"):
        return _value(toks, i + 1)
    if re.match(r"-?\d", t):
        n = re.sub(r"_?[iu](8|16|32|64|128|size)$", "", t).replace("_", "")
        return int(n), i + 1
    if t.startswith('b"'):
        return PyVec(list(bytes(t[2:-1], "latin-1").decode("unicode_escape").encode("latin-1"))), i + 1
    if t.startswith('"'):
        return bytes(t[1:-1], "utf-8").decode("unicode_escape"), i + 1
    if t.startswith("'"):
        return bytes(t[1:-1], "utf-8").decode("unicode_escape"), i + 1
    if t == "[":
        items = []
        i += 1
        while toks[i] != "]":
            v, i = _value(toks, i)
            items.append(v)
            if toks[i] == ";":
                # [v; n]
                n, i = _value(toks, i + 1)
                items = [items[0]] * n
            if toks[i] == ",":
                i += 1
        return PyVec(items), i + 1
    if t == "(":
        items = []
        i += 1
        while toks[i] != ")":
            v, i = _value(toks, i)
            items.append(v)
            if toks[i] == ",":
                i += 1
        return tuple(items), i + 1
    if t in ("true", "false"):
        return t == "true", i + 1
    path, j = _path(toks, i)
    if not path:
        raise ParseError("unexpected token %r" % t)
    if path in MAXES:
        return MAXES[path], j
    name = path.split("::")[-1]
    if j < len(toks) and toks[j] == "{":
        fields = {}
        j += 1
        while toks[j] != "}":
            fname = toks[j]
            if toks[j + 1] != ":":
                raise ParseError("expected ':' after field name")
            v, j = _value(toks, j + 2)
            fields[fname] = v
            if toks[j] == ",":
                j += 1
        return Adt(path, name, fields), j + 1
    if j < len(toks) and toks[j] == "(":
        fields = {}
        j += 1
        n = 0
        while toks[j] != ")":
            v, j = _value(toks, j)
            fields[str(n)] = v
            n += 1
            if toks[j] == ",":
                j += 1
        # enum variant Path::Variant(..) vs tuple struct Path(..)
        parent = "::".join(path.split("::")[:-1])
        return Adt(path, name, fields), j + 1
    # unit variant / unit struct: path "a::Enum::Variant"
    parent = "::".join(path.split("::")[:-1])
    return Adt(parent or path, name, {}), j
