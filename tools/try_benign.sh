#!/bin/sh
# usage: try_benign.sh <abs patch.diff> [ID...]   apply a behaviour-preserving patch to /repo, run the checks (all claimed
# checks when no ID is given), report every alarm, undo.  Any VIOLATION here is a false alarm of the machinery.
P="$1"; shift
cd /verif
if [ -n "$(git -C /repo status --short)" ]; then echo "REFUSING: /repo has uncommitted changes"; exit 3; fi
git -C /repo apply "$P" || { echo "patch does not apply"; exit 2; }
ids="$@"
[ -z "$ids" ] && ids=$(python3 -c "import json;print(' '.join(c['property_id'] for c in json.load(open('MANIFEST.json'))['checks']))")
bad=0
for id in $ids; do
  out=$(./check "$id" quick 2>&1); r=$?
  if [ $r -ne 0 ]; then bad=1; echo "ALARM $id on $(basename $P):"; echo "$out" | grep -E "^\[" | cut -c1-300 | head -5; fi
done
git -C /repo checkout -- .
[ $bad -eq 0 ] && echo "silent: $(basename $P)"
exit $bad
