#!/usr/bin/env python3
"""Regenerate MANIFEST.json from the table below (claimed checks) + properties.jsonl."""
import json
import os

HERE = os.path.dirname(os.path.dirname(os.path.abspath(__file__)))
props = [json.loads(l) for l in open(os.path.join(HERE, "properties.jsonl"))]

STATIC = "static analysis: "
CLAIMS = {
    "C01": dict(
        cat="other",
        text="Decides structural necessary conditions, not the behaviour: the (sat, dissat) witness template of every "
             "fragment extracted symbolically from the satisfier equals the specification's canonical template in both "
             "modes; multi/multi_a/sorted templates; has_sig bookkeeping; selection keeps (stack, locks) from one source; "
             "output-type assembly per descriptor type agrees with the standard and between direct/plan/PSBT paths; every "
             "satisfaction the choosers return reports locks of the candidate whose stack it carries. End to end on a bounded "
             "family (~60 scripts x every subset of their keys x preimage sets x locks met or not, both modes): the "
             "satisfier, evaluated from its typed syntax tree, returns only witnesses that use owned assets and make the "
             "specification's script succeed in a reference execution under the reported locks. PsbtInputSatisfier::check_older / check_after are the spent input's own BIP-68 / BIP-65 conditions (grid of sequences, versions, lock times, other inputs final or not; rule shared with C14). The last steps of a direct satisfaction (Satisfaction::try_completing element by element in order, None on the first placeholder that cannot be completed, Miniscript::_satisfy reporting Unavailable / Impossible as CouldNotSatisfy) are a decision table (shared with C17). Descriptor::satisfy stores the returned witness and scriptSig in the TxIn, each in its own field, and leaves it unchanged on failure. Every witness element comes from Placeholder::satisfy_self: a key in its own serialization, the signature / preimage held for that very key / hash / leaf (decision table shared with C17). Witness elements are written into pre-segwit scriptSigs with minimal pushes (OP_0 / OP_1..16 / OP_1NEGATE for the one-byte numbers), by util::witness_to_scriptsig and by Plan::satisfy alike (shared with C17).",
        note="Trusted: spec/satisfaction.py, spec/outputs.py; rustc THIR; evaluator semantics (fails closed). Signature "
             "validity, script execution and witness optimisation are not decided.",
        tech=STATIC + "symbolic per-variant template extraction from THIR compared with specification tables",
        engine="symx"),
    "C02": dict(
        cat="other",
        text="Decides structural necessary conditions of completeness: no specification template missing; the typing "
             "table's `d` agrees with the satisfier's dissatisfaction templates (cross-table); minimum/minimum_mall/combine "
             "exact tables; asset-lookup forwarding completeness over all Satisfier impls; malleable entry points reach "
             "malleable internals (call-site rule with reasoned exceptions). End to end on a bounded family (as C01): whenever a "
             "canonical satisfaction exists with the owned assets, the malleable satisfier returns one, and so does the "
             "non-malleable one for scripts typed non-malleable. The planner's matching of keys against the caller's Assets (is_key_direct_child_of) is an exhaustive table on short paths (rule shared with C17). The map Satisfier impls return the entry for exactly the asked key / hash / leaf. The lock-time types used as satisfiers (Sequence, RelLockTime, relative::LockTime, absolute::LockTime) answer by BIP-68 / BIP-65 implication of the requested lock by the held value (grid). PsbtInputSatisfier::check_older / check_after find every lock the transaction meets (BIP-68 / BIP-65 tables shared with C14).",
        note="Trusted: spec/satisfaction.py; rustc THIR. The witness search itself is not decided.",
        tech=STATIC + "cross-table contradiction rule, finite decision tables from THIR, who-calls-whom mode rule",
        engine="symx+tablex"),
    "C03": dict(
        cat="other",
        text="Decides that the selection logic used in non-malleable mode is the specification's non-malleable algorithm: "
             "exact table of `minimum`, time-lock availability rule and provenance of root_has_sig, selector binding per "
             "mode for every fragment, threshold selection on n=3 as properties of the result. End to end on a bounded family "
             "(as C01): no single or double third-party edit of a witness returned in non-malleable mode is accepted by "
             "the reference execution under MINIMALIF + NULLFAIL. Non-malleable entry points of every output type never route into a malleable internal (who-calls-whom rule over all mode-specific call sites, shared with C02). The lock merge of one spending path (RelLockTime::max, AbsLockTime::max, Satisfaction::concatenate_rev) keeps the later of two locks of one unit - equal ones included - and is IMPOSSIBLE exactly for differing units.",
        note="Trusted: specification's non-malleable algorithm is sufficient; malleability typing decided by C05.",
        tech=STATIC + "finite decision tables from THIR + symbolic selector binding",
        engine="tablex"),
    "C04": dict(
        cat="other",
        text="Decides structural necessary conditions, not round-trips on byte strings: the script template emitted by "
             "Terminal::encode for each of the 30 fragments (extracted symbolically) equals the specification's; "
             "Miniscript::script_size is the length homomorphism of that template (script_num_size, Ctx::pk_len tables); "
             "the lexer's table over all 256 opcodes: totality over the encoder's alphabet, fused-VERIFY splitting, "
             "non-minimal VERIFY rejection, push classes, minimal non-negative numbers; decode . encode = id (as scripts) on a "
             "family of ~90 miniscripts covering every fragment, both contexts and every number-push width, by evaluating "
             "lexer + decoder on the specification's script; and every single-instruction mutation of those scripts "
             "(deletions, duplications, swaps, opcode / push insertions and replacements, zero / non-minimal numbers, a "
             "fused *VERIFY written as two opcodes) that the decoder accepts re-encodes to the very same instruction "
             "stream (the decoder accepts canonical encodings only); the context's key pushes (push_ms_key / push_ms_key_hash / "
             "to_pubkeyhash) push / hash the key in its own serialization (33 / 65 bytes by its compressed flag; x-only in "
             "tapscript). The key types' own ToPublicKey conversions (full key = itself, secp key = its compressed key, x-only key = 02 || x, hash conversions = identity).",
        note="Trusted: spec/script.py (opcode bytes, templates); models of bitcoin::script::Builder::push_* (token "
             "constructors), the instruction iterator and read_scriptint; rustc THIR. The decoder is covered on the family, "
             "not on all scripts.",
        tech=STATIC + "symbolic template extraction + linear-form comparison of size terms + exhaustive lexer decision table",
        engine="symx+tablex"),
    "C07": dict(
        cat="other",
        text="Decides that the lift table is the specification's abstract semantics evaluated on the right children: "
             "each of the 30 arms of Miniscript::lift is extracted symbolically (children as opaque lifted policies in pop "
             "order) and compared with the oracle up to commutativity; lift_check failure aborts the fold; tr / taptree / "
             "sh / wsh / pkh / wpkh / bare lifts and Concrete::lift are extracted the same way; normalized(), applied last "
             "by every lift, keeps the truth table on a bounded family of ~2700 policies; and on ~60 whole scripts (thorough: "
             "~150) the policy obtained by evaluating the library's parser and lift is true for a set of owned keys, "
             "preimages, nLockTime and nSequence exactly when a canonical witness from those assets makes the "
             "specification's script succeed in the reference execution (every key subset x preimage subset x lock "
             "threshold). The generic iterators of iter/tree.rs (post-order, right-to-left post-order, pre-order; their Iterator::next evaluated from source) yield exactly the definition's order, indices and child indices on policy trees and every miniscript fragment, and the analyser's model of them used by the other rules is that behaviour (shared rule). Miniscript::lift_check, evaluated through within_resource_limits and ScriptContext::check_local_validity in every context, refuses exactly when one of the context's four validity / resource checks fails or the time-lock summary records a mixed path; that summary is, per fragment kind, the join of the right children (table shared with C12 / C18).",
        note="Trusted: spec/semantics.py, spec/msexec.py (reference execution, canonical witnesses), spec/policy_sem.py; "
             "model of generic tree iterators; rustc THIR. Bounded family.",
        tech=STATIC + "symbolic per-variant extraction of the lift fold from THIR compared with a specification table",
        engine="symx"),
    "C09": dict(
        cat="other",
        text="Decides structural necessary conditions, not measured bounds: every ExtData rule's witness count / size / "
             "scriptSig-size figure (max-plus expression over the children's figures, extracted symbolically) dominates "
             "the size image of the satisfaction template; multi / multi_a / thresh on grids; pk_cost, static_ops and "
             "has_free_verify agree with the encoder's template; limit comparisons pair the right figure with the right "
             "limit; constants are Bitcoin's; placeholder sizes match what is produced; max_weight_to_satisfy of every "
             "non-taproot descriptor type equals the BIP-141 weight of the standard assembly on grids crossing every "
             "push-size and compact-size breakpoint; script_size of every fragment equals the encoder's template length "
             "(rule shared with C04); and measured on ~60 whole scripts: the figures computed by evaluating parser + type "
             "checker bound every witness the evaluated satisfier produces (every key subset x preimage set x both modes) "
             "in element count and bytes, and script_size / pk_cost equal the script's byte length. Every typed leaf constructor of Miniscript (pk_k ... sortedmulti_a, TRUE / FALSE: what parser, decoder and compiler use) attaches the type and figures that from_ast computes for the same node, in every context (shared rule). The public accessors max_satisfaction_size / max_satisfaction_witness_elements return those figures. A Satisfier used as asset provider reports each held signature's real length (taproot: 64 or 65 bytes), which is what a plan's announced witness size sums (rule shared with C17). Tr::max_weight_to_satisfy is 66 for a key-only output and otherwise the largest BIP-341 witness weight [elements, script, control block of 33 + 32 x depth] over the satisfiable leaves, on trees of several shapes with per-leaf figures crossing the compact-size breakpoints.",
        note="Trusted: spec/satisfaction.py, spec/script.py, spec/limits.py; rustc THIR. Executed-opcode and exec-stack "
             "depth figures are not decided against an execution.",
        tech=STATIC + "symbolic extraction of accounting rules as max-plus / linear forms, domination check against template images",
        engine="symx"),
    "C12": dict(
        cat="other",
        text="Decides completely: the parameter algebra (eq / intersect / entails per field; lattice relations and "
             "per-context values of the rustc-evaluated constants; Bitcoin limit constants), validate_pk's table, the "
             "mixed-time-lock fold truth table. Decides structurally: polarity (tightening never admits more) and "
             "switch<->defect<->error pairing of every validation switch / limit on decision trees extracted symbolically "
             "from validate / validate_non_top_level for each of the 30 fragment kinds; every parameter is enforced; "
             "per-context fragment and key tables; entry-point coverage and constructor discipline on MIR. Numbers are in range on every way in: lock times exactly 1 <= n < 2^31 and thresholds 1 <= k <= n <= key limit, through the constructors, the text parser and the script decoder (boundary tables by evaluation). Every typed leaf constructor of Miniscript (pk_k ... sortedmulti_a, TRUE / FALSE: what parser, decoder and compiler use) attaches the type and figures that from_ast computes for the same node, in every context (shared rule). script_num_size and Ctx::pk_len, the byte counts the size switches are applied to, are exact tables (shared with C04). The key-kind predicates (is_uncompressed / is_x_only_key / num_der_paths) of every MiniscriptKey impl of the crate are a checked table; an impl missing from it fails. ScriptContext::other_top_level_checks for every context x fragment kind (bare outputs: p2pk, p2pkh, multi / sortedmulti up to 3 keys only). ExtData's time-lock summary joins, per fragment kind, exactly the children that share a spending path (all combinations of child summaries). The tree walk the per-node switches and the duplicate-key test ride on (iter / iter_pk / get_nth_child) visits every child of every fragment kind (shared with C20).",
        note="Trusted: spec/limits.py; rustc THIR/MIR and constant evaluation. Defect predicates are assumed to compute "
             "what their names say; typed infallible combinators are outside the claim.",
        tech=STATIC + "symbolic decision-tree extraction with monotonicity (polarity) check, exact finite tables, MIR must-pass-through and who-may-construct",
        engine="symx+tablex+cfgq"),
    "C19": dict(
        cat="other",
        text="Derived impls are structural by construction (census). For every hand-written Eq/Ord/Hash/Clone impl "
             "(Terminal, Miniscript, Tr, policy Ord) the coverage clause is decided: each payload field (keys, hashes, "
             "every bit of a lock time, threshold k, arity n) of every variant and every pair of variants is "
             "distinguished by ==, cmp (antisymmetric, Equal only on identical values) and hash, and clone rebuilds "
             "the same node; decided by evaluating the impl bodies on one-level model values with opaque payloads. On "
             "whole descriptors (~75 canonical texts of every output type incl. near-twins differing in one key, "
             "threshold, arity, key order, lock, tree shape or internal key; parsed by evaluating the parser): == holds "
             "exactly for identical texts, cmp is Equal exactly then, antisymmetric and a linear order on the family, "
             "clones are equal, and equal descriptors feed the same stream to a Hasher (~5600 pairs). The generic iterators of iter/tree.rs (post-order, right-to-left post-order, pre-order; their Iterator::next evaluated from source) yield exactly the definition's order, indices and child indices on policy trees and every miniscript fragment, and the analyser's model of them used by the other rules is that behaviour (shared rule). Terminal's hand-written Clone rebuilds every variant with its children in order.",
        note="Trusted: model of the generic tree iterators in iter/tree.rs; key/hash types' own Eq/Ord/Hash; rustc THIR. "
             "Deep trees follow from per-node coverage + arity via the generic pre-order traversal (not re-proved).",
        tech=STATIC + "derive census + payload-coverage decision table extracted from impl bodies (THIR evaluation on model values)",
        engine="tablex"),
    "C05": dict(
        cat="proof",
        text="Exhaustive decision over the finite domain: every typing rule's exact table (from its typed syntax tree) "
             "equals the transcribed specification table on all child types a fragment can have; Type::* pairing and "
             "type_check dispatch decided symbolically; sanity assertions discharged on the reachable-type fixpoint. Every typed leaf constructor of Miniscript (pk_k ... sortedmulti_a, TRUE / FALSE: what parser, decoder and compiler use) attaches the type and figures that from_ast computes for the same node, in every context (shared rule).",
        note="Trusted: spec/types.py transcription; rustc THIR; the evaluator's semantics for the small first-order Rust "
             "subset the rules use (fails closed outside it). thresh bounded to n<=3 quick / n<=5 thorough.",
        tech=STATIC + "exact decision-table extraction from THIR (constant folding over a finite domain) + symbolic dispatch extraction",
        engine="tablex"),
}

CLAIMS["C20"] = dict(
    cat="other",
    text="Decides structural clauses: every arm of Miniscript::translate_pk_ctx / substitute_raw_pkh and of the policy "
         "translators rebuilds the same variant with mapped payloads, preserved k / weights / child order and per-node "
         "re-checks; every key visitor (for_each_key, iter_pk, get_nth_pk) covers every key-carrying variant computed "
         "from the type definition; TreeLike::as_node, branches, get_nth_child agree with the arity and order of the type "
         "definition; wrapper translations and Descriptor dispatch are uniform; every descriptor wrapper's translate_pk "
         "(Bare, Pkh, Wpkh, Wsh, Sh x 3, Tr without / with a tree) succeeds exactly when every mapping, every inner "
         "translation and the checking constructor succeed, keeps all leaves in order, and otherwise returns that very "
         "error (outcome table over who fails and how). Decided by evaluating the functions (THIR) on one-level model "
         "values for all 30 variants. On ~75 whole descriptors of every output type (parsed by evaluating the parser): "
         "for_each_key and iter_pk visit exactly the multiset of key names of the text and for_each_key reports a "
         "refusal; translate_pk with the identity gives an equal descriptor, with a renaming the descriptor of the "
         "substituted text, twice equals once with the composed mapping, and a mapping failing on any one key fails with "
         "that error. The generic iterators of iter/tree.rs (post-order, right-to-left post-order, pre-order; their Iterator::next evaluated from source) yield exactly the definition's order, indices and child indices on policy trees and every miniscript fragment, and the analyser's model of them used by the other rules is that behaviour (shared rule). The Threshold combinators (map, map_ref, translate, translate_ref, translate_by_index, map_from_post_order_iter, forget_maximum, into_data, and_n, or_n) keep k, size and order and apply the function once per element.",
    note="Trusted: model of the generic tree iterators; rustc THIR. Identity / composition laws on deep trees and "
         "derivation-level key behaviour are not re-proved.",
    tech=STATIC + "per-variant structure-preservation table extracted by evaluating THIR on model values; dispatch uniformity over match arms",
    engine="tablex+symx")

CLAIMS["C16"] = dict(
    cat="other",
    text="Decides that the per-type output table is the standard one and that its siblings agree: scriptPubKey, inner "
         "script, ECDSA script code, unsigned scriptSig and address of bare / pkh / wpkh / wsh / sh / sh-wsh / sh-wpkh "
         "extracted symbolically and compared with the BIP16/141/143 table; sorted multisig sites sort with the matching "
         "routine in encoder and satisfier; Descriptor dispatch is uniform; derive_public_key's key-variant table; on "
         "~100 key expressions (single / x-only / extended keys x origin x path x multipath step x wildcard) "
         "at_derivation_index appends exactly the child the wildcard names (refusing i >= 2^31, hardened results and "
         "multipath keys), into_single_keys yields one key per alternative in order, full_derivation_path(s) = origin "
         "path + path, and derive_public_key derives along exactly that path; whole descriptors of every output type "
         "over such keys (parsed, split and printed by evaluation): into_single_descriptors yields exactly the texts with "
         "each <a;b;..> step replaced by its j-th alternative, at_derivation_index(i) the text with /* replaced by /i "
         "(refused for multipath, hardened and out-of-range cases), and keys with different numbers of alternatives "
         "are refused; has_wildcard / is_multipath / into_definite / derive_at_index answer accordingly and "
         "derived_descriptor's keys are derived along exactly those paths; Tr::script_pubkey is OP_1 <output key> and "
         "Tr::address the tweaked-key address of the same key; DescriptorSecretKey::to_public moves exactly the hardened "
         "prefix into the origin and keeps origin path + path. Descriptor::desc_type / DescriptorType answer the kind the text names (incl. sorted-multi and nested forms). derivation_path(s), DefiniteDescriptorKey::from_str and its accessors / conversions, the secret key's multipath split; find_derivation_index_for_spk as a decision table (first matching index of the range, None, index 0 without wildcard, errors passed on) with DerivationResult and the derived_descriptor / TryFrom glue; into_sorted_bip67(_xonly) / is_sorted_bip67(_xonly) evaluated on all permutations of key sets whose compressed and x-only orders differ. What a key / key-hash push in a script commits to (the key's own serialization; table shared with C04).",
    note="Trusted: spec/outputs.py; rust-bitcoin script/address constructors and BIP-32 child derivation modelled as term "
         "constructors; rustc THIR. BIP32 arithmetic and taproot output keys (C15) are not decided.",
    tech=STATIC + "symbolic extraction of output-script terms compared with a standards table; sibling agreement; dispatch uniformity",
    engine="symx")
CLAIMS["C17"] = dict(
    cat="other",
    text="Decides structural necessary conditions: plans and direct satisfactions come from the same template builders "
         "and into_plan copies template and locks; Plan::satisfy's per-type assembly equals the direct assembly / the "
         "standard; every Satisfaction value takes stack, absolute and relative lock from one source (exact tables of "
         "minimum / minimum_mall, symbolic concatenate_rev, per-fragment templates with symbolic locks); announced sizes "
         "count what is produced; the Assets key-source relation as an exhaustive table on short paths; mode dispatch; and "
         "on ~60 whole scripts x key subsets x preimage sets x both modes (template builder evaluated with a modelled "
         "AssetProvider) the locks a template reports are necessary and sufficient for its witness in the reference "
         "execution (validates with them, fails with one less and with the other unit; no lock reported = none needed); "
         "Placeholder::satisfy_self turns every placeholder into exactly the element it stands for (decision table over "
         "placeholder kinds x key forms x satisfier holdings); Assets as asset provider (key source x fingerprint x "
         "capability x leaf availability x signature size; preimage sets; lock maxima; append) and a Satisfier as asset "
         "provider answer exactly from what they hold. Satisfaction::try_completing / Miniscript::_satisfy / Plan::satisfaction_weight as decision tables. Plan::satisfy writes pre-segwit scriptSigs exactly as the direct satisfier does (minimal pushes); locks are merged part by part as in C03.",
    note="Trusted: spec/outputs.py, spec/satisfaction.py, spec/msexec.py; rustc THIR. Byte equality of completed plans "
         "is not decided.",
    tech=STATIC + "call-structure rules, finite decision tables and symbolic field-provenance extraction from THIR",
    engine="symx+tablex")

CLAIMS["C10"] = dict(
    cat="other",
    text="Decides, by evaluating the printers and parsers from their typed syntax trees on model values: for every "
         "miniscript fragment shape (all 30 variants, every alias / sugar form, every distinguishable child class in "
         "every child position, wrapper chains) parse(print(v)) == v, printing is a fixed point and distinct shapes "
         "print differently; the same for concrete and semantic policies; for descriptors of every kind "
         "(incl. every taproot tree shape up to N leaves) text -> object -> text#checksum -> object; sugar table; "
         "verify_checksum rejects every single substitution in checksum and payload of sample strings and malformed "
         "lengths; checksum constants, alphabet, CHAR_MAP and the character->symbol expansion equal BIP-380 for every "
         "character in every group position; TapTreeBuilder records brace depths up to depth 128 with several bottom "
         "pairs; descriptor public-key expressions (single / extended keys x origin x derivation path x multipath step x "
         "wildcard) round-trip, non-canonical spellings reach a fixed point, repeated multipath indexes are refused; "
         "wallet-policy key placeholders @i/<M;N>/* (incl. /** and pairs of different digit counts) and whole templates "
         "round-trip, a descriptor turns into its template and back; secret key expressions round-trip and "
         "parse_descriptor / to_string_with_secret restore a descriptor's secret keys exactly. Inside miniscripts keys and "
         "hashes are opaque texts. The output types' own FromStr (Bare, Pkh, Wpkh, Wsh, Sh, Tr) accept, on whole descriptor texts of every type with and without a right / wrong checksum, exactly the texts of their own type and give the value Descriptor::from_str wraps.",
    note="Trusted: spec/bip380.py (BIP-380 reference + model of the bech32 crate's engine); rust-bitcoin lock-time "
         "Display; evaluator semantics and its std string / fmt models; rustc THIR. The 2/4-error detection capability "
         "follows from the BIP-380 generator (constants decided, code distance not re-proved). WIF keys, base58 "
         "decoding of extended keys (modelled as opaque text of the right shape) are not decided.",
    tech=STATIC + "abstract evaluation of printer and parser THIR over an exhaustive family of one- and two-level model "
                  "shapes (locality of both sides makes the family complete per level); constant comparison with BIP-380",
    engine="tablex")

CLAIMS["C13"] = dict(
    cat="other",
    text="Decides, by evaluating the interpreter from its typed syntax tree on abstract witness stacks (opaque tokens: "
         "a signature valid for exactly one key, keys, preimages, 32 zero bytes, junk, empty, [1]) against an independent "
         "reference execution of the specification's Script for the same miniscript: over a family of ~60 well-typed "
         "scripts covering every fragment (segwit v0 and tapscript), every canonical satisfaction is accepted; for every "
         "single and double mutation of every canonical (dis)satisfaction, and for lock-time / sequence values around "
         "every lock, interpreter acceptance implies script acceptance with exactly the executed checks reported. "
         "from_txdata's success set, kept stack, inner kind and script code equal the BIP-16/141/143/341 table on all "
         "(scriptSig, witness) combinations up to length 2 over right/wrong keys, redeem and witness scripts, control "
         "blocks, annex. The signature-hash flavour used per output type is the BIP-143/341 one. Interpreter::to_no_checks keeps script, stack and kind (the copy inferred without signature checking evaluates the same script). The public glue puts the iterator in the state the rules above assume: Interpreter::from_txdata stores what inner::from_txdata returned plus the caller's sequence and lock time, iter_custom starts from the spent key / the script at (0,0), a copy of the stack, the interpreter's locks, no error, the spend's signature type and the caller's verifier; iter's verifier is verify_sig on the caller's transaction data; iter_assume_sigs accepts; inferred_descriptor_string names the recognised output type.",
    note="Trusted: spec/msexec.py (reference Script semantics on abstract values, consensus rules), spec/script.py, "
         "spec/satisfaction.py; models of rust-bitcoin parsing / hashing / Script API on tokens; rustc THIR; the evaluator. "
         "Real signature verification, byte-level decoding of the scripts (C04) and the policy-satisfaction clause are "
         "not decided; families are finite (bounded mutation depth).",
    tech=STATIC + "abstract evaluation of the interpreter's THIR over finite abstract witness domains compared with a "
                  "reference small-step Script semantics; exhaustive decision table of from_txdata; classification tables",
    engine="tablex+symx")

CLAIMS["C14"] = dict(
    cat="other",
    text="Decides structural / abstract-evaluation clauses: PsbtInputSatisfier::check_older / check_after equal BIP-68/112 "
         "and BIP-65 on grids around the lock (tx version, sequence incl. disable flag and final value, both units, both "
         "input positions); finalize_input evaluated on model PSBTs for all states of the final fields x helper outcomes: "
         "final inputs returned unchanged without consulting the helper, failure leaves every input untouched, success "
         "stores exactly the checked scriptSig / witness (None when empty), keeps the utxo fields and clears the rest, "
         "other inputs untouched; on MIR, finalize_input_helper borrows the PSBT immutably, every success exit passes "
         "the success edge of interpreter_inp_check and returns the checked values; interpreter_inp_check fails on any "
         "yielded error; the eight finalize entry points pass the announced malleability switch, visit every input and "
         "refuse out-of-range indices; the updater records exactly the BIP-174 scripts per descriptor type; get_descriptor "
         "infers a descriptor exactly when redeem / witness scripts and signing keys commit to the spent output (1260 "
         "combinations of output type x redeem script x witness script x keys); sighash_msg requests the digest flavour, "
         "script code, input index, amount and sighash type that BIP-341 / BIP-143 / legacy signing prescribe for the "
         "spent output type (decision table over output type x scripts x leaf hash x sighash type x input position); for "
         "tr() descriptors the updater records exactly BIP-371's fields (internal key, Merkle root, one tap_scripts entry "
         "per leaf whose control block folds to the root, per-key sorted duplicate-free leaf hashes with the key source) "
         "over tree shapes and key placements with hashes as a free algebra; its key translator records (master "
         "fingerprint, origin path + path) for the key derived along the definite key's own path; Plan::update_psbt_input "
         "records the same BIP-174 scripts per descriptor type; PsbtInputSatisfier finds every signature / key in the "
         "BIP-174 / 371 field assigned to it for exactly the asked key, hash and leaf; update_input_with_descriptor checks the "
         "descriptor against the really spent output (utxo consistency table). PsbtExt::extract on model PSBTs: fails for a malformed PSBT, an input without final fields and a refusing interpreter_check, otherwise returns the unsigned transaction with every input's own final scriptSig / witness and nothing else changed; interpreter_check runs interpreter_inp_check for every input in order on that input's own final data. update_output_with_descriptor checks the output map at the index against the transaction output at the same index (decision table); the unchecked updaters run the same updater without a scriptPubKey. psbt::sanity_check accepts exactly PSBTs whose input counts agree and whose partial signatures carry the input's (standard) sighash type.",
    note="Trusted: rust-bitcoin PSBT / lock-time types modelled by fields and consensus encodings; C13 (interpreter) and "
         "C01-C03 (satisfier); rustc THIR/MIR; evaluator. Real signatures / sighashes, extraction, operation-history "
         "independence beyond the per-call state tables, and taproot field population are not decided.",
    tech=STATIC + "finite decision tables by abstract evaluation of THIR on model PSBT states; MIR must-pass-through and "
                  "def-use rule for check-then-return; call-site mode table",
    engine="tablex+cfgq")

CLAIMS["C18"] = dict(
    cat="other",
    text="Decides, by evaluating Semantic::{normalized, sorted, at_age, at_lock_time, n_keys, minimum_n_keys, entails} and "
         "Concrete::{lift, check_timelocks} from their typed syntax trees on every policy of a bounded family (all "
         "k-of-n thresholds, n <= 3, over 11 atoms incl. both constants and both lock units, and over a mixed alphabet of "
         "atoms and representative depth-1 thresholds; ~5-17k policies) against an independent truth-table oracle: "
         "truth tables preserved, idempotence, normal form, order independence of sorted, exact restriction by age / "
         "lock time below / at / above every lock and in the other unit, key counts, entailment == implication on all "
         "pairs of a sub-family, mixed-lock check == existence of a path needing both units. The generic iterators of iter/tree.rs (post-order, right-to-left post-order, pre-order; their Iterator::next evaluated from source) yield exactly the definition's order, indices and child indices on policy trees and every miniscript fragment, and the analyser's model of them used by the other rules is that behaviour (shared rule). The miniscript-side twin of check_timelocks: per fragment kind, which children's time-lock summaries are joined on one path (shared with C12).",
    note="Trusted: spec/policy_sem.py (atoms independent, as the library's entailment treats them); rust-bitcoin lock "
         "comparison on consensus encodings; evaluator; model of the generic tree iterators. Bounded family: deeper / "
         "wider policies are not enumerated.",
    tech=STATIC + "bounded-exhaustive abstract evaluation of the policy algorithms' THIR compared with a truth-table oracle",
    engine="tablex")

CLAIMS["C11"] = dict(
    cat="other",
    text="A bounded search for reachable panics plus two structural rules; not a proof of panic freedom. The untrusted-"
         "input entry points are evaluated from their typed syntax trees (the evaluator panics where the compiled code "
         "would: unwrap / expect, indexing and slicing, checked arithmetic, explicit panics) on adversarial families: "
         "~9k malformed texts through the Descriptor / Miniscript / policy / expression parsers (every single-character "
         "deletion, structural insertion and truncation of valid texts, degenerate arities, huge / zero / signed "
         "numbers, non-ASCII, stray separators and checksums, deep nesting); every short and truncated witness stack "
         "through the interpreter for ~60 scripts; every single-instruction mutation of ~90 scripts and all tiny "
         "scripts through lexer + decoder; PSBT preimage look-ups of wrong length; the finalizer's spent-output "
         "look-ups over utxo presence x previous-transaction size x vout; ~4000 near-valid key expressions through the public "
         "and secret descriptor key parsers; the type checker's tree_height (the only bound on parenthesis-free wrapper "
         "chains) equals the fragment's depth on ~1600 typed fragments. Structural: the parser's depth "
         "pre-check (402 accepted, 403 refused) dominates tree construction; every recursive cycle of the MIR call "
         "graph reachable from an entry point consists of audited functions whose depth that pre-check (or "
         "from_ast's tree-height check) bounds. The malformed-text family includes characters at the edges of the accepted range (0x1f, DEL, 0x80, NUL, TAB) with and without checksum-shaped suffixes. Values whose invariant a later unreachable! / expect relies on (DefiniteDescriptorKey, DerivPaths) are built only inside their checking constructor (who-constructs rule at function granularity). The evaluator treats an allocation request beyond 2^20 elements (Vec::with_capacity) as a crash; the decoder's mutation family carries large well-formed numbers.",
    note="Trusted: the evaluator's panic semantics and std models; rust-bitcoin models. Descriptor key-expression "
         "parsing (xpub / origin / derivation paths), the planner and allocation sizes are not searched; absence of a "
         "report on the families is not absence of panics.",
    tech=STATIC + "bounded abstract evaluation of entry points' THIR over adversarial input families (panic = report); "
                  "MIR call-graph SCC audit; must-pass-through of the depth pre-check",
    engine="tablex+cfgq")

CLAIMS["C06"] = dict(
    cat="other",
    text="Decides on a bounded family: ~1600 fragments (wrapper chains up to length 2 over every leaf, every binary / "
         "ternary combinator over typed sub-fragments of every base type, thresholds; segwit v0 and tapscript) are typed "
         "by the library's own rules (from_tree -> from_ast -> type_check evaluated from the typed syntax tree); for each "
         "accepted fragment the specification's Script is executed by a reference executor on every input stack up to "
         "length 3 over {0, 1, 2, valid / foreign signatures, keys, right / wrong preimages, junk} and all single "
         "substitutions of the canonical witnesses, and the label predictions are checked: B / V / K / W stack shapes, "
         "z / o / n consumption, u, d, s, f, and that canonical (dis)satisfactions leave non-zero / zero; Type::cast_x "
         "equals type_check of the wrapper on all (cast, child type) pairs (rule shared with C08); the contexts admit "
         "exactly the fragments / key kinds that can execute under their script rules (rule shared with C12). The leaf family includes the boundary lock values (0, 1, 2^31 - 1, 2^31, unit flags). The reference executor enforces the 4-byte limit of numeric operands; the largest lock values appear under the combinators. The typed leaf constructors attach the labels type_check gives (shared with C05).",
    note="Trusted: spec/typesem.py (label meanings incl. the MINIMALIF assumption), spec/msexec.py, spec/script.py; C05 "
         "(rules == specification) and C04 (encoder == templates) connect the labels and scripts to the library; rustc "
         "THIR; evaluator. `e` and `m` (third-party malleation) and deeper fragments are not decided.",
    tech=STATIC + "library typing by abstract evaluation of THIR + bounded model check of label predictions against a "
                  "reference Script semantics",
    engine="tablex")

CLAIMS["C08"] = dict(
    cat="other",
    text="Decides the compositional argument behind the compiler, not its search: (gates) every compile entry point "
         "reaches the compiler only when is_valid, check_binary_ops and is_safe_nonmalleable pass, insert_elem refuses "
         "malleable or locally invalid elements, best_compilation returns only a signed, non-malleable B element (all as "
         "decision tables); (templates) one level of best_compilations, evaluated with opaque sub-compilations for every "
         "policy variant (leaves, and, or incl. the three and-or configurations and weights, thresholds with every choice "
         "of the swapped first child, all-key thresholds, n-of-n folding; both signature contexts; with / without "
         "dissatisfaction probability), builds only fragments whose lift (specification table) has the policy's truth "
         "table; (casts) each of the 10 casts wraps in the fragment its rule functions belong to, and Type::cast_x "
         "equals Type::type_check of the wrapper on all ~4300 (cast, child type) pairs, so the unchecked constructor "
         "attaches the true type; the validity predicates the gates rely on (is_valid, check_timelocks / "
         "check_duplicate_keys, is_safe_nonmalleable) agree with the truth-table oracle on a family of concrete policies "
         "(rule shared with C18); the policy cache's order and the context limit pairing (shared with C19 / C09); and end "
         "to end, by evaluating Policy::compile itself (dynamic programme, casts, policy cache as a BTreeMap ordered by "
         "the policy's own Ord, f64 costs) on ~18 whole policies (thorough: ~60; both signature contexts): every returned "
         "miniscript lifts (evaluated) to the input policy's truth table, is B / signed / non-malleable, passes "
         "validate(&Ctx::SANE) and re-parses from its text; the evaluated outputs coincide with the real compiler's on "
         "the policies compared by hand; likewise compile_tr (internal-key extraction, per-leaf compilation, Huffman tree), "
         "compile_tr_native, compile_tr_private_experimental and compile_to_descriptor (bare / sh / wsh / sh-wsh / tr) "
         "evaluated on ~12 policies (thorough ~17): the descriptor is of the requested kind, lifts to the policy's truth "
         "table (the unspendable key never available), every leaf passes validate(&Tap::SANE), the text re-parses. Every typed leaf constructor of Miniscript (pk_k ... sortedmulti_a, TRUE / FALSE: what parser, decoder and compiler use) attaches the type and figures that from_ast computes for the same node, in every context (shared rule). The end-to-end compiler rule also runs a family in the Legacy and Bare contexts (known finding: a threshold over a time lock compiles to an or_i-bearing script that the context's own SANE parameters refuse) and includes policies with TRIVIAL / UNSATISFIABLE. ScriptContext::check_local_validity, the compiler's candidate filter, applies all four of the context's checks in every context.",
    note="Trusted: spec/semantics.py + spec/policy_sem.py; C05/C06 (types are sound), C07 (lift), C09 (limits used by "
         "check_local_validity); rustc THIR; evaluator. Cost optimality and ExtData attached by casts (C09 decides the "
         "rules) are not decided; the end-to-end rules are bounded families.",
    tech=STATIC + "one-level symbolic evaluation of the dynamic programme with opaque sub-results + truth-table "
                  "equivalence of lifted templates; decision tables of the gates; rule-pairing table of the casts",
    engine="symx+tablex")

CLAIMS["C15"] = dict(
    cat="other",
    text="Decides the structure of the commitment with the hash functions as a free algebra (leaf hash = opaque "
         "constructor of the script, branch hash = opaque commutative constructor, tweak = opaque constructor of "
         "internal key and root): by evaluating TrSpendInfo::{nodes_from_tap_tree, from_tr, leaves}, TrSpendInfoIter::"
         "next and BitStack128 from their typed syntax trees on every tree shape up to 5 (thorough 7) leaves and on "
         "combs reaching depth 127 / 128 with one to three bottom pairs on either side: the root handed to the tweak is "
         "the BIP-341 root; every leaf's control block folds from its leaf hash along its branch to that root, has "
         "branch length = depth and the spend info's key / parity; leaves come in tree order with their own scripts; "
         "parsing / printing (TapTreeBuilder, Display) and translate_pk keep depths and order; TapTree::combine puts "
         "both subtrees one level deeper in order and fails exactly beyond depth 128; to_tap_tree passes exactly the leaves "
         "(depth, script, version, order) on and is None only without a tree. TapTree::leaves yields every leaf once with its depth from either end, in every interleaving of next / next_back, and len counts the leaves left. Taproot descriptor texts whose tree part is not a binary tree are refused; every accepted text's (depth, leaf) list holds each leaf of the text once, in order, and satisfies Kraft's equality.",
    note="Trusted: collision freedom and the byte-level tagged hashes / tweak arithmetic of rust-bitcoin (not decided: "
         "the design round's reason for `not applicable` still applies to that part); rustc THIR; evaluator. Bounded "
         "family of tree shapes.",
    tech=STATIC + "abstract evaluation of the Merkle builder and control-block iterator over a free hash algebra, "
                  "compared with BIP-341's definition on an enumerated family of tree shapes",
    engine="tablex")

# Rules added late in the build round (DESIGN.md 7.2 / 7.3); appended to the claims above.
ADDENDA = {
    "C01": " A signature of the greatest legal length (73 bytes with its sighash byte) is written into a pre-segwit scriptSig, not refused by an assertion. The lock reported for a path is the later of its parts' locks (lock-merge table shared with C03).",
    "C02": " The satisfier's template comparison also has a needs-clause (the parts of the template found are among the canonical one's). Every leaf builder of the satisfaction template emits placeholders only for what the look-ups it consulted can deliver: with a satisfier holding exactly one look-up answer (or a key-hash signature together with the look-up that names the key), whatever stack the builder returns is completed by Placeholder::satisfy_self from that same satisfier, raw key hashes in tapscript leaves included (shared with C17 / C11). The lock merge of one spending path keeps two equal locks available (table shared with C03).",
    "C03": " The duplicate-key / mixed-time-lock / malleability predicates the non-malleable satisfier's guarantee rests on are the defect-predicate tables of C12 (shared). PsbtInputSatisfier::check_older / check_after report every lock the transaction meets (BIP-68 / BIP-65 tables shared with C14): a lock wrongly reported unmet under a signed root makes the non-malleable chooser spend a signature.",
    "C04": " Every typed constructor (Miniscript::pk_k / pk_h / expr_raw_pkh / multi / ...) attaches the type and extra data the type checker computes for the same node (shared with C05 / C06). ExtData::pk_cost - the other size prediction - is the template's length across the OP_16 / one-byte-push boundary of k and n (shared with C09).",
    "C07": " Concrete::lift of an n-ary conjunction is the n-of-n threshold over all of its children (three conjuncts evaluated).",
    "C08": " Policy::is_safe_nonmalleable - the gate of every compile entry point - reports a policy as safe only if it is false when every key is withheld and everything else granted (TRIVIAL is not safe), on every policy of a bounded family (constants, key, hash, lock under and / or / thresh to depth two). The candidate filter ScriptContext::check_local_validity fails exactly when one of the context's four checks fails (shared with C07). n-ary and / or policies are refused, not compiled with their tail dropped. Every per-context resource check is also evaluated on numbers across its limit (tapscript: witness items plus execution stack against 1000).",
    "C09": " ExtData::multi_a / sortedmulti_a pk_cost equals the script length exactly on a (k, n) grid across the number-push breakpoints. The P2SH scriptSig limit bounds the satisfaction plus the push of the redeem script: by the compared figure (names) and on a numeric grid across 1650. Every per-context limit check (script size, opcode count, witness items, scriptSig size, tapscript stack sum) is evaluated on a numeric grid across its boundary, not only by the names in the compared term. The sizes a spending plan announces (witness_size, scriptsig_size) are compared with the byte counts of what Plan::satisfy builds (rules shared with C17; known finding: witness_size of wsh / sh-wsh omits the witness script).",
    "C10": " Descriptors built by a constructor rather than parsed (new_bare / new_sh / new_wsh over a key check, a key-hash check, multi, conjunctions) print as a text that parses back to an equal descriptor (known finding: bare c:pk_h prints as pkh(K)). Turning a descriptor whose keys are not of the BIP-388 placeholder form into a wallet policy is refused or gives a text that parses back. The alternate flag (`{:#}`) does not change a miniscript's text.",
    "C11": " The PSBT entry points taking an input index refuse an index beyond the input list (shared with C14). A 73-byte signature does not trip witness_to_scriptsig's assertion (shared with C17). Satisfaction::satisfy's expect(\"the same satisfier should manage to complete the template\") cannot fire (shared with C17). Every key translation whose context error is turned into a panic (expect_translator_err, expect / unwrap on translate_pk's result; enumerated over the MIR of non-test code) either targets NoChecks or uses a translator whose `pk`, evaluated on compressed / uncompressed / x-only / extended keys, never returns an uncompressed or x-only key unless given one. The taproot compilers' Huffman builder returns an error, not a panic, when the policy's odds make the tree deeper than 128 levels.",
    "C12": " Each defect predicate behind a validation switch (has_repeated_keys, has_mixed_timelocks, is_non_malleable, requires_sig, ...) is evaluated against its definition on a bounded family. TapTree::combine refuses exactly the depths a control block cannot prove (shared with C15). The context's key rule applies to the key of every key-bearing fragment, pk_h included (from_ast and the compiler rely on it alone). Tr::new accepts a tree only if every leaf passes the context's top-level checks (decision table over trees of 0..3 leaves, the failing leaf in every position).",
    "C13": " An `after` lock is refused on an input whose nSequence is 0xffffffff (BIP-65). The script committed to by a P2WSH / P2SH output is decoded from the element's bytes (the elements 01 and empty are not the scripts OP_1 / OP_0). verify_sig refuses a signature of the other kind for every inner kind with the script code from_txdata really stores (none for a taproot key spend) - it does not panic.",
    "C14": " A successful finalization keeps the UTXO fields and the unknown / proprietary pairs of the input and clears everything else (BIP-174's input finalizer). Plan::update_psbt_input for a tr() plan records the merkle root, the internal key of a key-spend plan, the leaf script under its control block, and every signing key's origin with the hash of the leaf it signs in - on a fresh input and on one that already lists the key for another leaf.",
    "C16": " The named descriptor constructors (new_pk ... new_sh_wsh_sortedmulti, new_tr) build the descriptor their name says: the value prints as the expected text and equals what Descriptor::from_str gives for it.",
    "C17": " Plan::scriptsig_size equals the byte length of the scriptSig Plan::satisfy builds, length prefix included, on grids across the push and compact-size breakpoints. The template builders and Placeholder::satisfy_self agree on which look-up delivers each placeholder (R17.17, see C02); a key hash in a tapscript leaf is completed with the x-only key.",
}
for _k, _v in ADDENDA.items():
    CLAIMS[_k]["text"] += _v

NA = {
    "C15": "commitment arithmetic over hashes with shape-dependent index arithmetic: no sound structural argument in "
           "reach decides it; structural residue (depth bounds, constructor discipline, cache coherence, order "
           "preservation) is claimed under C12/C19/C20 (DESIGN.md C15)",
}


def main():
    checks = []
    for p in props:
        i = p["id"]
        if i not in CLAIMS:
            continue
        c = CLAIMS[i]
        checks.append({
            "property_id": i,
            "quick_cmd": "./check %s quick" % i,
            "thorough_cmd": "./check %s thorough" % i,
            "evidence_file": "evidence/%s.json" % i,
            "replay_cmd_template": "./check %s --explain {path}" % i,
            "engine": c["engine"],
            "level_claimed": {"category": c["cat"], "text": c["text"], "design_ref": "DESIGN.md section 2, " + i},
            "level_note": c["note"],
            "technique": c["tech"],
        })
    na = []
    for p in props:
        i = p["id"]
        if i in CLAIMS:
            continue
        na.append({"property_id": i, "reason": NA.get(i, "check not built yet in this round; planned structural "
                                                         "clauses are in DESIGN.md section 2")})
    m = {
        "version": 1,
        "setup_cmd": "./setup.sh",
        "hooks": {
            "guard": "miniscript_verif",
            "enable": "none needed: no hooks are compiled into /repo (static analysis of the unmodified source)",
            "baseline_off_cmd": "cd /repo && cargo test --workspace --no-fail-fast --offline",
            "source_commits": [],
            "add_only": True,
        },
        "engines": [
            {"name": "factgen", "path": "factgen/", "serves_properties": sorted(CLAIMS),
             "kind_free_text": "rustc_private driver dumping ADTs, impls, signatures, THIR, MIR and constant values of /repo as JSON"},
            {"name": "tablex/symx", "path": "msverif/interp.py", "serves_properties": sorted(CLAIMS),
             "kind_free_text": "evaluator over THIR: exact finite-domain decision tables and symbolic per-variant terms"},
            {"name": "cfgq", "path": "msverif/mirq.py", "serves_properties": [],
             "kind_free_text": "MIR control-flow queries: dominance, must-pass-through, who-constructs, panic census"},
        ],
        "checks": checks,
        "notes": "Static analysis only; every check regenerates facts from /repo's working tree. See DESIGN.md.",
        "not_applicable": na,
    }
    with open(os.path.join(HERE, "MANIFEST.json"), "w") as fh:
        json.dump(m, fh, indent=1)
    print("claimed:", [c["property_id"] for c in checks])


if __name__ == "__main__":
    main()
