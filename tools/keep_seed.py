#!/usr/bin/env python3
"""Copy confirmed seeded changes from /tmp/seeds/<id> into /verif/seeded/<id>."""
import json
import os
import shutil
import sys

HERE = os.path.dirname(os.path.dirname(os.path.abspath(__file__)))
for d in sys.argv[1:]:
    d = d.rstrip("/")
    name = os.path.basename(d)
    cj = os.path.join(d, "confirm.json")
    if not os.path.exists(cj):
        print(name, "no confirm.json")
        continue
    c = json.load(open(cj))
    if not c.get("confirmed"):
        print(name, "NOT confirmed; skipped")
        continue
    dst = os.path.join(HERE, "seeded", name)
    os.makedirs(dst, exist_ok=True)
    shutil.copy(os.path.join(d, "patch.diff"), dst)
    shutil.copy(os.path.join(d, "demo.rs"), dst)
    meta = json.load(open(os.path.join(d, "meta.json")))
    meta["confirmed_by_me"] = {
        "at": c["at"],
        "what_i_ran": [
            "scratch worktree of /repo (outside /repo and /verif), base commit of the seed",
            "cp demo.rs tests/seed_demo.rs; cargo test --offline --features compiler --test seed_demo  -> passes on clean tree",
            "git apply patch.diff; same demo command -> fails",
            "cargo test --workspace --no-fail-fast --offline (existing suite, demo removed) -> all pass with the patch",
        ],
        "demo_clean_pass": c["demo_clean_pass"], "demo_patched_fails": c["demo_patched_fails"],
        "suite_patched_pass": c["suite_patched_pass"],
    }
    json.dump(meta, open(os.path.join(dst, "meta.json"), "w"), indent=1)
    print(name, "kept")
