#!/bin/sh
# usage: try_seed.sh <patch.diff> <ID>...   apply a seeded change to /repo, run the checks, undo.
P="$1"; shift
cd /verif
if [ -n "$(git -C /repo status --short)" ]; then echo "REFUSING: /repo has uncommitted changes"; exit 3; fi
git -C /repo apply "$P" || { echo "patch does not apply"; exit 2; }
for id in "$@"; do
  ./check "$id" quick 2>&1 | grep -E "^\[|^VIOLATION|^C[0-9]+ " | cut -c1-330 | head -12
done
git -C /repo checkout -- .
git -C /repo status --short | head -3
