#!/usr/bin/env python3
"""Confirm seeded changes in a scratch worktree (outside /repo and /verif):
  (a) demo passes on the clean tree, (b) demo fails with the patch,
  (c) the full existing suite passes with the patch.
usage: confirm_seed.py <seed dir>...   (each has patch.diff, demo.rs, meta.json)
Writes <seed dir>/confirm.json."""
import json
import os
import subprocess
import sys
import time

WT = os.environ.get("SEED_WT", "/tmp/wt/confirm")
ENV = dict(os.environ, CARGO_NET_OFFLINE="true")


def sh(cmd, cwd=WT, timeout=3600):
    p = subprocess.run(cmd, cwd=cwd, shell=True, env=ENV, stdout=subprocess.PIPE, stderr=subprocess.STDOUT,
                       text=True, timeout=timeout)
    return p.returncode, p.stdout


def clean():
    sh("git checkout -- . && rm -f tests/seed_demo.rs")


def main():
    if not os.path.isdir(WT):
        rc, out = sh("git -C /repo worktree add --detach %s HEAD" % WT, cwd="/")
        if rc != 0:
            print(out)
            return 1
    for d in sys.argv[1:]:
        d = d.rstrip("/")
        res = {"seed": d, "at": time.strftime("%Y-%m-%dT%H:%M:%S")}
        clean()
        sh("cp %s/demo.rs tests/seed_demo.rs" % d)
        rc, out = sh("cargo test --offline --features compiler --test seed_demo 2>&1 | tail -30")
        res["demo_clean_pass"] = ("test result: ok" in out) and ("FAILED" not in out)
        res["demo_clean_tail"] = out[-1500:]
        rc, out = sh("git apply %s/patch.diff" % d)
        res["patch_applies"] = rc == 0
        if rc == 0:
            rc, out = sh("cargo test --offline --features compiler --test seed_demo 2>&1 | tail -40")
            res["demo_patched_fails"] = ("FAILED" in out or "panicked" in out) and "error: could not compile" not in out
            res["demo_patched_tail"] = out[-1500:]
            sh("rm -f tests/seed_demo.rs")
            rc, out = sh("cargo test --workspace --no-fail-fast --offline > /tmp/wt/confirm_suite.log 2>&1; "
                         "echo EXIT=$?; grep -E '^test result|\\.\\.\\. FAILED' /tmp/wt/confirm_suite.log | sort | uniq -c")
            res["suite_patched_pass"] = ("EXIT=0" in out and "FAILED" not in out and "test result: ok" in out)
            res["suite_tail"] = out[-2500:]
        clean()
        res["confirmed"] = bool(res.get("demo_clean_pass") and res.get("patch_applies")
                                and res.get("demo_patched_fails") and res.get("suite_patched_pass"))
        with open(os.path.join(d, "confirm.json"), "w") as fh:
            json.dump(res, fh, indent=1)
        print(d, "CONFIRMED" if res["confirmed"] else "NOT CONFIRMED",
              {k: v for k, v in res.items() if isinstance(v, bool)})
    return 0


if __name__ == "__main__":
    sys.exit(main())
