#!/bin/sh
# run every claimed check (tier = $1, default quick); prints one summary line per check
cd "$(dirname "$0")/.."
tier=${1:-quick}
rc=0
for id in $(python3 -c "import json;print(' '.join(c['property_id'] for c in json.load(open('MANIFEST.json'))['checks']))"); do
  out=$(./check $id $tier 2>&1); r=$?
  echo "$out" | grep -E "^(VIOLATION|KNOWN-FINDING)" | cut -c1-200
  echo "$out" | tail -1
  [ $r -ne 0 ] && rc=1
done
exit $rc
