"""Oracle: Miniscript type system (correctness + malleability tables).

Transcribed from the Miniscript specification tables (bitcoin.sipa.be/miniscript,
"Correctness properties" and "Malleability" tables) -- see DESIGN.md Appendix A.
Independent of the library's source.

A child type is a dict with
  base in {"B","K","V","W"} and boolean flags z o n d u (correctness),
  s f e m (malleability).
Each rule returns None when the specification rejects the child types, else a
dict with the flags the specification grants.

The two halves are separable (correctness rules read only base/z/o/n/d/u,
malleability rules only s/f/e/m) which is what allows the exhaustive tables to
be computed per half.
"""

CORR_FLAGS = ["z", "o", "n", "d", "u"]
MALL_FLAGS = ["s", "f", "e", "m"]


def C(base, flags=""):
    d = {"base": base}
    for f in CORR_FLAGS:
        d[f] = f in flags
    return d


def M(flags=""):
    return {f: (f in flags) for f in MALL_FLAGS}


# ---------------------------------------------------------------- leaves
CORR_LEAF = {
    "false": C("B", "zud"),
    "true": C("B", "zu"),
    "pk_k": C("K", "ondu"),
    "pk_h": C("K", "ndu"),
    "time": C("B", "z"),          # older / after
    "hash": C("B", "ondu"),       # sha256 hash256 ripemd160 hash160
    "multi": C("B", "ndu"),
    "sortedmulti": C("B", "ndu"),
    "multi_a": C("B", "du"),
    "sortedmulti_a": C("B", "du"),
}

MALL_LEAF = {
    "false": M("sem"),
    "true": M("fm"),
    "pk_k": M("sem"),
    "pk_h": M("sem"),
    "time": M("fm"),
    "hash": M("m"),
    "multi": M("sem"),
    "sortedmulti": M("sem"),
    "multi_a": M("sem"),
    "sortedmulti_a": M("sem"),
}


# ---------------------------------------------------------------- wrappers
def corr_cast_alt(x):
    if x["base"] != "B":
        return None
    return dict(C("W"), d=x["d"], u=x["u"])


def corr_cast_swap(x):
    if x["base"] != "B" or not x["o"]:
        return None
    return dict(C("W"), d=x["d"], u=x["u"])


def corr_cast_check(x):
    if x["base"] != "K":
        return None
    return dict(C("B"), o=x["o"], n=x["n"], d=x["d"], u=True)


def corr_cast_dupif(x, tapscript=False):
    if x["base"] != "V" or not x["z"]:
        return None
    return dict(C("B"), o=True, n=True, d=True, u=tapscript)


def corr_cast_verify(x):
    if x["base"] != "B":
        return None
    return dict(C("V"), z=x["z"], o=x["o"], n=x["n"])


def corr_cast_nonzero(x):
    if x["base"] != "B" or not x["n"]:
        return None
    return dict(C("B"), o=x["o"], n=True, d=True, u=x["u"])


def corr_cast_zeronotequal(x):
    if x["base"] != "B":
        return None
    return dict(C("B"), z=x["z"], o=x["o"], n=x["n"], d=x["d"], u=True)


def corr_and_v(x, y):
    if x["base"] != "V" or y["base"] not in "BKV":
        return None
    return dict(C(y["base"]),
                z=x["z"] and y["z"],
                o=(x["z"] and y["o"]) or (x["o"] and y["z"]),
                n=x["n"] or (x["z"] and y["n"]),
                u=y["u"])


def corr_and_b(x, y):
    if x["base"] != "B" or y["base"] != "W":
        return None
    return dict(C("B"),
                z=x["z"] and y["z"],
                o=(x["z"] and y["o"]) or (x["o"] and y["z"]),
                n=x["n"] or (x["z"] and y["n"]),
                d=x["d"] and y["d"],
                u=True)


def corr_or_b(x, z):
    if x["base"] != "B" or not x["d"] or z["base"] != "W" or not z["d"]:
        return None
    return dict(C("B"),
                z=x["z"] and z["z"],
                o=(x["z"] and z["o"]) or (x["o"] and z["z"]),
                d=True, u=True)


def corr_or_c(x, z):
    if x["base"] != "B" or not x["d"] or not x["u"] or z["base"] != "V":
        return None
    return dict(C("V"), z=x["z"] and z["z"], o=x["o"] and z["z"])


def corr_or_d(x, z):
    if x["base"] != "B" or not x["d"] or not x["u"] or z["base"] != "B":
        return None
    return dict(C("B"), z=x["z"] and z["z"], o=x["o"] and z["z"], d=z["d"], u=z["u"])


def corr_or_i(x, z):
    if x["base"] != z["base"] or x["base"] not in "BKV":
        return None
    return dict(C(x["base"]), o=x["z"] and z["z"], d=x["d"] or z["d"], u=x["u"] and z["u"])


def corr_and_or(x, y, z):
    if x["base"] != "B" or not x["d"] or not x["u"]:
        return None
    if y["base"] != z["base"] or y["base"] not in "BKV":
        return None
    return dict(C(y["base"]),
                z=x["z"] and y["z"] and z["z"],
                o=(x["z"] and y["o"] and z["o"]) or (x["o"] and y["z"] and z["z"]),
                d=z["d"],
                u=y["u"] and z["u"])


def corr_threshold(k, subs):
    for i, s in enumerate(subs):
        if s["base"] != ("B" if i == 0 else "W") or not s["d"] or not s["u"]:
            return None
    nz = sum(1 for s in subs if s["z"])
    no = sum(1 for s in subs if s["o"])
    return dict(C("B"),
                z=nz == len(subs),
                o=(nz == len(subs) - 1 and no == 1),
                d=True, u=True)


# t:X = and_v(X,1); l:X = or_i(0,X); u:X = or_i(X,0)
def corr_cast_true(x):
    return corr_and_v(x, CORR_LEAF["true"])


def corr_cast_or_i_false(x):
    a = corr_or_i(CORR_LEAF["false"], x)
    b = corr_or_i(x, CORR_LEAF["false"])
    assert a == b
    return a


# ---------------------------------------------------------------- malleability
def mall_identity(x):
    return dict(x)


def mall_cast_check(x):
    # c:X is `s` in the specification (a CHECKSIG always needs a signature)
    return dict(x, s=True)


def mall_cast_dupif(x):
    return dict(M(), s=x["s"], e=x["f"], m=x["m"])


def mall_cast_verify(x):
    return dict(M(), s=x["s"], f=True, m=x["m"])


def mall_cast_nonzero(x):
    return dict(M(), s=x["s"], e=x["f"], m=x["m"])


def mall_and_v(x, y):
    return dict(M(), s=x["s"] or y["s"], f=x["s"] or y["f"], m=x["m"] and y["m"])


def mall_and_b(x, y):
    return dict(M(),
                s=x["s"] or y["s"],
                f=(x["f"] and y["f"]) or (x["s"] and x["f"]) or (y["s"] and y["f"]),
                e=x["e"] and y["e"] and x["s"] and y["s"],
                m=x["m"] and y["m"])


def mall_or_b(x, z):
    return dict(M(), s=x["s"] and z["s"], e=True,
                m=x["m"] and z["m"] and x["e"] and z["e"] and (x["s"] or z["s"]))


def mall_or_c(x, z):
    return dict(M(), s=x["s"] and z["s"], f=True,
                m=x["m"] and z["m"] and x["e"] and (x["s"] or z["s"]))


def mall_or_d(x, z):
    return dict(M(), s=x["s"] and z["s"], f=z["f"], e=z["e"],
                m=x["m"] and z["m"] and x["e"] and (x["s"] or z["s"]))


def mall_or_i(x, z):
    return dict(M(), s=x["s"] and z["s"], f=x["f"] and z["f"],
                e=(x["e"] and z["f"]) or (x["f"] and z["e"]),
                m=x["m"] and z["m"] and (x["s"] or z["s"]))


def mall_and_or(x, y, z):
    return dict(M(),
                s=z["s"] and (x["s"] or y["s"]),
                f=z["f"] and (x["s"] or y["f"]),
                e=z["e"] and (x["s"] or y["f"]),
                m=x["m"] and y["m"] and z["m"] and x["e"] and (x["s"] or y["s"] or z["s"]))


def mall_threshold(k, subs):
    n = len(subs)
    ns = sum(1 for s in subs if s["s"])
    all_e = all(s["e"] for s in subs)
    all_m = all(s["m"] for s in subs)
    return dict(M(), s=ns >= n - k + 1, e=all_e and ns == n, m=all_m and all_e and ns >= n - k)


def mall_cast_true(x):
    return mall_and_v(x, MALL_LEAF["true"])


def mall_cast_or_i_false(x):
    a = mall_or_i(MALL_LEAF["false"], x)
    b = mall_or_i(x, MALL_LEAF["false"])
    assert a == b
    return a


CORR_RULES = {
    # name -> (arity, oracle)
    "cast_alt": (1, corr_cast_alt), "cast_swap": (1, corr_cast_swap), "cast_check": (1, corr_cast_check),
    "cast_dupif": (1, corr_cast_dupif), "cast_verify": (1, corr_cast_verify),
    "cast_nonzero": (1, corr_cast_nonzero), "cast_zeronotequal": (1, corr_cast_zeronotequal),
    "cast_true": (1, corr_cast_true), "cast_or_i_false": (1, corr_cast_or_i_false),
    "and_b": (2, corr_and_b), "and_v": (2, corr_and_v), "or_b": (2, corr_or_b), "or_d": (2, corr_or_d),
    "or_c": (2, corr_or_c), "or_i": (2, corr_or_i), "and_or": (3, corr_and_or),
}

MALL_RULES = {
    "cast_alt": (1, mall_identity), "cast_swap": (1, mall_identity), "cast_check": (1, mall_cast_check),
    "cast_dupif": (1, mall_cast_dupif), "cast_verify": (1, mall_cast_verify),
    "cast_nonzero": (1, mall_cast_nonzero), "cast_zeronotequal": (1, mall_identity),
    "cast_true": (1, mall_cast_true), "cast_or_i_false": (1, mall_cast_or_i_false),
    "and_b": (2, mall_and_b), "and_v": (2, mall_and_v), "or_b": (2, mall_or_b), "or_d": (2, mall_or_d),
    "or_c": (2, mall_or_c), "or_i": (2, mall_or_i), "and_or": (3, mall_and_or),
}

# leaf rule name in the library -> oracle leaf name
LEAF_RULES = {
    "pk_k": "pk_k", "pk_h": "pk_h", "multi": "multi", "sortedmulti": "sortedmulti",
    "multi_a": "multi_a", "sortedmulti_a": "sortedmulti_a", "hash": "hash", "time": "time",
    "TRUE": "true", "FALSE": "false",
}

# Allowed conservative deviations: the library may be *weaker* than the
# specification only in these (rule, flag) cells. Each has a reason.
ALLOWED_WEAKER = {
    ("corr", "cast_dupif", "u"):
        "d:X is `u` only under Tapscript (MINIMALIF is consensus there); the library's context-free "
        "typing never grants it",
    ("mall", "cast_check", "s"):
        "c:X is unconditionally `s` in the specification; the library propagates s_X, which is equal on "
        "every reachable K type (all K fragments contain a key check) and weaker on unreachable inputs",
}

# Terminal variant -> (rule name, child field order) for Type::type_check
TYPE_CHECK_DISPATCH = {
    "True": ("TRUE", []), "False": ("FALSE", []),
    "PkK": ("pk_k", []), "PkH": ("pk_h", []), "RawPkH": ("pk_h", []),
    "After": ("time", []), "Older": ("time", []),
    "Sha256": ("hash", []), "Hash256": ("hash", []), "Ripemd160": ("hash", []), "Hash160": ("hash", []),
    "Alt": ("cast_alt", ["0"]), "Swap": ("cast_swap", ["0"]), "Check": ("cast_check", ["0"]),
    "DupIf": ("cast_dupif", ["0"]), "Verify": ("cast_verify", ["0"]), "NonZero": ("cast_nonzero", ["0"]),
    "ZeroNotEqual": ("cast_zeronotequal", ["0"]),
    "AndV": ("and_v", ["0", "1"]), "AndB": ("and_b", ["0", "1"]),
    "AndOr": ("and_or", ["0", "1", "2"]),
    "OrB": ("or_b", ["0", "1"]), "OrD": ("or_d", ["0", "1"]), "OrC": ("or_c", ["0", "1"]),
    "OrI": ("or_i", ["0", "1"]),
    "Thresh": ("threshold", ["0"]),
    "Multi": ("multi", []), "SortedMulti": ("sortedmulti", []),
    "MultiA": ("multi_a", []), "SortedMultiA": ("sortedmulti_a", []),
}


# ---------------------------------------------------------------- reachable types
def _ck(c):
    return (c["base"],) + tuple(bool(c[f]) for f in CORR_FLAGS)


def _mk(m):
    return tuple(bool(m[f]) for f in MALL_FLAGS)


def _cd(t):
    d = {"base": t[0]}
    for f, v in zip(CORR_FLAGS, t[1:]):
        d[f] = v
    return d


def _md(t):
    return dict(zip(MALL_FLAGS, t))


def reachable(maxn=3):
    """Least fixpoint of the *specification's* rules from the specification's leaves:
    every (correctness, malleability) pair some well-typed fragment can have.
    thresh is closed for n <= maxn (its result type only depends on counts, all
    result types already arise for n <= 2)."""
    import itertools
    reach = set()
    for name in CORR_LEAF:
        reach.add((_ck(CORR_LEAF[name]), _mk(MALL_LEAF[name])))
    un = list(k for k, v in CORR_RULES.items() if v[0] == 1)
    bi = list(k for k, v in CORR_RULES.items() if v[0] == 2)
    changed = True
    while changed:
        changed = False
        cur = list(reach)

        def add(c, m):
            nonlocal changed
            if c is None:
                return
            t = (_ck(c), _mk(m))
            if t not in reach:
                reach.add(t)
                changed = True
        for f in un:
            for (c, m) in cur:
                add(CORR_RULES[f][1](_cd(c)), MALL_RULES[f][1](_md(m)))
        for f in bi:
            for (c1, m1) in cur:
                for (c2, m2) in cur:
                    add(CORR_RULES[f][1](_cd(c1), _cd(c2)), MALL_RULES[f][1](_md(m1), _md(m2)))
        lefts = [(c, m) for (c, m) in cur if c[0] == "B" and _cd(c)["d"] and _cd(c)["u"]]
        for (c1, m1) in lefts:
            for (c2, m2) in cur:
                for (c3, m3) in cur:
                    if c2[0] != c3[0]:
                        continue
                    add(corr_and_or(_cd(c1), _cd(c2), _cd(c3)), mall_and_or(_md(m1), _md(m2), _md(m3)))
        ws = [(c, m) for (c, m) in cur if c[0] == "W" and _cd(c)["d"] and _cd(c)["u"]]
        for n in range(1, maxn + 1):
            for k in range(1, n + 1):
                for first in lefts:
                    for rest in itertools.combinations_with_replacement(ws, n - 1):
                        subs = [first] + list(rest)
                        add(corr_threshold(k, [_cd(c) for c, _ in subs]),
                            mall_threshold(k, [_md(m) for _, m in subs]))
    return reach


def reachable_halves(maxn=3):
    """Closure of the correctness rules alone and of the malleability rules alone
    (supersets of the projections of reachable()); cheap."""
    import itertools
    rc = set(_ck(c) for c in CORR_LEAF.values())
    changed = True
    while changed:
        changed = False
        cur = list(rc)

        def add(c):
            nonlocal changed
            if c is not None and _ck(c) not in rc:
                rc.add(_ck(c))
                changed = True
        for f, (ar, fn) in CORR_RULES.items():
            for args in itertools.product(cur, repeat=ar):
                add(fn(*[_cd(a) for a in args]))
        firsts = [c for c in cur if c[0] == "B" and _cd(c)["d"] and _cd(c)["u"]]
        ws = [c for c in cur if c[0] == "W" and _cd(c)["d"] and _cd(c)["u"]]
        for n in range(1, maxn + 1):
            for first in firsts:
                for rest in itertools.combinations_with_replacement(ws, n - 1):
                    add(corr_threshold(1, [_cd(first)] + [_cd(r) for r in rest]))
    rm = set(_mk(m) for m in MALL_LEAF.values())
    changed = True
    while changed:
        changed = False
        cur = list(rm)

        def addm(m):
            nonlocal changed
            if _mk(m) not in rm:
                rm.add(_mk(m))
                changed = True
        for f, (ar, fn) in MALL_RULES.items():
            for args in itertools.product(cur, repeat=ar):
                addm(fn(*[_md(a) for a in args]))
        for n in range(1, maxn + 1):
            for k in range(1, n + 1):
                for subs in itertools.combinations_with_replacement(cur, n):
                    addm(mall_threshold(k, [_md(s) for s in subs]))
    return rc, rm
