"""Oracle: Bitcoin consensus / standardness constants and the per-context rules of Miniscript.
Independent of the library."""

MAX_OPS_PER_SCRIPT = 201
MAX_SCRIPT_ELEMENT_SIZE = 520          # also the P2SH redeem script limit
MAX_SCRIPT_SIZE = 10000
MAX_STANDARD_P2WSH_SCRIPT_SIZE = 3600
MAX_STANDARD_P2WSH_STACK_ITEMS = 100
MAX_SCRIPTSIG_SIZE = 1650
MAX_STACK_SIZE = 1000
MAX_BLOCK_WEIGHT = 4000000
MAX_PUBKEYS_PER_MULTISIG = 20
MAX_PUBKEYS_IN_CHECKSIGADD = 999
MAX_RECURSION_DEPTH = 402

LIMITS = {
    "MAX_OPS_PER_SCRIPT": MAX_OPS_PER_SCRIPT, "MAX_SCRIPT_ELEMENT_SIZE": MAX_SCRIPT_ELEMENT_SIZE,
    "MAX_SCRIPT_SIZE": MAX_SCRIPT_SIZE, "MAX_STANDARD_P2WSH_SCRIPT_SIZE": MAX_STANDARD_P2WSH_SCRIPT_SIZE,
    "MAX_STANDARD_P2WSH_STACK_ITEMS": MAX_STANDARD_P2WSH_STACK_ITEMS, "MAX_SCRIPTSIG_SIZE": MAX_SCRIPTSIG_SIZE,
    "MAX_STACK_SIZE": MAX_STACK_SIZE, "MAX_BLOCK_WEIGHT": MAX_BLOCK_WEIGHT,
    "MAX_PUBKEYS_PER_MULTISIG": MAX_PUBKEYS_PER_MULTISIG, "MAX_PUBKEYS_IN_CHECKSIGADD": MAX_PUBKEYS_IN_CHECKSIGADD,
}

INF = 2**64 - 1

BOOL_FIELDS = ["allow_compressed_keys", "allow_duplicate_keys", "allow_dup_if", "allow_malleability", "allow_multi",
               "allow_multi_a", "allow_mixed_time_locks", "allow_or_i", "allow_raw_pkh", "allow_sigless_branch",
               "allow_non_b", "allow_uncompressed_keys", "allow_unsatisfiable", "allow_x_only_keys",
               "allow_inconsistent_multipath_keys"]
LIMIT_FIELDS = ["max_opcode_count", "max_script_size", "max_witness_items", "max_exec_stack_size", "max_recursive_depth"]

# What each script context's CONSENSUS parameters must say (None = not constrained by this oracle).
# Legacy = P2SH, BareCtx = bare scriptPubKey, Segwitv0 = P2WSH, Tap = Tapscript.
CONTEXT_CONSENSUS = {
    "Legacy": dict(allow_compressed_keys=True, allow_uncompressed_keys=True, allow_x_only_keys=False,
                   allow_multi=True, allow_multi_a=False, allow_dup_if=False, allow_or_i=False, allow_non_b=False,
                   max_opcode_count=MAX_OPS_PER_SCRIPT, max_script_size=MAX_SCRIPT_ELEMENT_SIZE),
    "BareCtx": dict(allow_compressed_keys=True, allow_uncompressed_keys=True, allow_x_only_keys=False,
                    allow_multi=True, allow_multi_a=False, allow_dup_if=False, allow_or_i=False, allow_non_b=False,
                    max_opcode_count=MAX_OPS_PER_SCRIPT, max_script_size=MAX_SCRIPT_SIZE),
    "Segwitv0": dict(allow_compressed_keys=True, allow_uncompressed_keys=False, allow_x_only_keys=False,
                     allow_multi=True, allow_multi_a=False, allow_dup_if=True, allow_or_i=True, allow_non_b=False,
                     max_opcode_count=MAX_OPS_PER_SCRIPT, max_exec_stack_size=MAX_STACK_SIZE),
    "Tap": dict(allow_compressed_keys=False, allow_uncompressed_keys=False, allow_x_only_keys=True,
                allow_multi=False, allow_multi_a=True, allow_dup_if=True, allow_or_i=True, allow_non_b=False),
}
# SANE must additionally forbid these
SANE_FORBIDS = ["allow_duplicate_keys", "allow_malleability", "allow_mixed_time_locks", "allow_raw_pkh",
                "allow_sigless_branch", "allow_non_b"]
SANE_LIMITS = {
    "Segwitv0": dict(max_script_size=MAX_STANDARD_P2WSH_SCRIPT_SIZE, max_witness_items=MAX_STANDARD_P2WSH_STACK_ITEMS),
}

# validation switches: switch -> (error variant, defect)
TOP_LEVEL_SWITCHES = {
    "allow_malleability": ("Malleable", "not non-malleable"),
    "allow_non_b": ("NonBase", "base type is not B"),
    "allow_sigless_branch": ("SiglessBranch", "some path needs no signature"),
    "allow_unsatisfiable": ("Unsatisfiable", "no satisfaction data"),
}
GLOBAL_SWITCHES = {
    "allow_duplicate_keys": ("DuplicateKeys", "has_repeated_keys"),
    "allow_mixed_time_locks": ("MixedTimeLocks", "has_mixed_timelocks"),
}
# per-fragment switches: Terminal variant -> {switch: error}
FRAGMENT_SWITCHES = {
    "DupIf": {"allow_dup_if": "IllegalDupIf"},
    "OrI": {"allow_or_i": "IllegalOrI"},
    "RawPkH": {"allow_raw_pkh": "IllegalRawPkh"},
    "Multi": {"allow_multi": "IllegalMulti"},
    "SortedMulti": {"allow_multi": "IllegalMulti"},
    "MultiA": {"allow_multi_a": "IllegalMultiA"},
    "SortedMultiA": {"allow_multi_a": "IllegalMultiA"},
}
KEY_VARIANTS = ["PkK", "PkH", "Multi", "SortedMulti", "MultiA", "SortedMultiA"]
KEY_SWITCHES = ["allow_compressed_keys", "allow_uncompressed_keys", "allow_x_only_keys"]
LIMIT_ERRORS = {
    "max_recursive_depth": "MaxRecursiveDepthExceeded", "max_script_size": "MaxScriptSizeExceeded",
    "max_witness_items": "MaxWitnessItemsExceeded", "max_opcode_count": "MaxOpCountExceeded",
    "max_exec_stack_size": "MaxExecStackSizeExceeded",
}

# Per-context legacy fragment checks (ScriptContext::check_global_consensus_validity): which fragments a
# context must reject outright.
CONTEXT_REJECTS = {
    "Legacy": {"MultiA", "SortedMultiA"},
    "BareCtx": {"MultiA", "SortedMultiA"},
    "Segwitv0": {"MultiA", "SortedMultiA"},
    "Tap": {"Multi", "SortedMulti"},
}
# key kinds a context must reject in pk_k / multi keys: (uncompressed, x_only)
CONTEXT_KEY_REJECTS = {
    "Legacy": {"x_only"}, "BareCtx": {"x_only"}, "Segwitv0": {"uncompressed", "x_only"}, "Tap": {"uncompressed"},
}


def timelock_step(k, acc, t):
    """one fold step of the mixed-time-lock analysis (acc, t: dicts of the 5 flags)"""
    out = dict(acc)
    if k > 1:
        conflict = (acc["csv_with_height"] and t["csv_with_time"]) or (acc["csv_with_time"] and t["csv_with_height"]) \
            or (acc["cltv_with_height"] and t["cltv_with_time"]) or (acc["cltv_with_time"] and t["cltv_with_height"])
        out["contains_combination"] = out["contains_combination"] or conflict
    for f in ("csv_with_height", "csv_with_time", "cltv_with_height", "cltv_with_time", "contains_combination"):
        out[f] = out[f] or t[f]
    return out
