"""Oracle: abstract spending semantics of each fragment (DESIGN.md Appendix D). Independent of the library.

Lifted policy terms:
   ("key", K) ("after",) ("older",) ("hash", kind) ("false",) ("true",)
   ("thresh", k, [terms])       and = thresh(n, ..), or = thresh(1, ..)
   ("L", i)  the lifted policy of child i
"""


def L(i):
    return ("L", i)


def AND(*xs):
    return ("thresh", len(xs), list(xs))


def OR(*xs):
    return ("thresh", 1, list(xs))


LIFT = {
    "True": ("true",), "False": ("false",),
    "PkK": ("key", "K0"), "PkH": ("key", "K0"),
    "RawPkH": "ERROR",          # a bare key hash names no key: not liftable
    "After": ("after",), "Older": ("older",),
    "Sha256": ("hash", "Sha256"), "Hash256": ("hash", "Hash256"),
    "Ripemd160": ("hash", "Ripemd160"), "Hash160": ("hash", "Hash160"),
    "Alt": L(0), "Swap": L(0), "Check": L(0), "DupIf": L(0), "Verify": L(0), "NonZero": L(0), "ZeroNotEqual": L(0),
    "AndV": AND(L(0), L(1)), "AndB": AND(L(0), L(1)),
    "AndOr": OR(AND(L(0), L(1)), L(2)),
    "OrB": OR(L(0), L(1)), "OrD": OR(L(0), L(1)), "OrC": OR(L(0), L(1)), "OrI": OR(L(0), L(1)),
}


def lift_thresh(k, n):
    return ("thresh", k, [L(i) for i in range(n)])


def lift_multi(k, n):
    return ("thresh", k, [("key", "K%d" % i) for i in range(n)])


def same_up_to_commutativity(a, b):
    """and/or/thresh are commutative in their children"""
    if isinstance(a, tuple) and a and a[0] == "thresh":
        if not (isinstance(b, tuple) and b and b[0] == "thresh") or a[1] != b[1] or len(a[2]) != len(b[2]):
            return False
        rest = list(b[2])
        for x in a[2]:
            for j, y in enumerate(rest):
                if same_up_to_commutativity(x, y):
                    del rest[j]
                    break
            else:
                return False
        return True
    return a == b
