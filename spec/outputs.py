"""Oracle: standard output scripts, redeem / witness scripts, unsigned scriptSig, ECDSA script code and the
placement of a satisfaction, per descriptor type (BIP16 / BIP141 / BIP143 / BIP341). DESIGN.md Appendix E.
Independent of the library.

Terms:  E = the explicit miniscript encoding; K = the key
  ("p2wsh", x) ("p2sh", x) ("p2pkh", K) ("p2wpkh", K) ("p2tr", Q)
  ("push", x)    a script consisting of a single push of x
  ("pushes", w)  a script pushing every element of the witness list w
  EMPTY          the empty script
  W              the miniscript witness (list); lists are concatenated with +
"""

EMPTY = ("script",)
E = ("enc", "ms")
K = ("key",)

# type -> dict of expected terms
OUTPUTS = {
    "Bare": dict(script_pubkey=E, inner_script=E, script_code=E, unsigned_script_sig=EMPTY, explicit_script=E),
    "Pkh": dict(script_pubkey=("p2pkh", K), inner_script=("p2pkh", K), script_code=("p2pkh", K),
                unsigned_script_sig=EMPTY, explicit_script=("p2pkh", K)),
    "Wpkh": dict(script_pubkey=("p2wpkh", K), inner_script=("p2wpkh", K), script_code=("p2pkh", K),
                 unsigned_script_sig=EMPTY, explicit_script=("p2wpkh", K)),
    "Wsh": dict(script_pubkey=("p2wsh", E), inner_script=E, script_code=E, unsigned_script_sig=EMPTY, explicit_script=E),
    "Sh": dict(script_pubkey=("p2sh", E), inner_script=E, script_code=E, unsigned_script_sig=EMPTY, explicit_script=E),
    "ShWsh": dict(script_pubkey=("p2sh", ("p2wsh", E)), inner_script=E, script_code=E,
                  unsigned_script_sig=("push", ("p2wsh", E)), explicit_script=E),
    "ShWpkh": dict(script_pubkey=("p2sh", ("p2wpkh", K)), inner_script=("p2wpkh", K), script_code=("p2pkh", K),
                   unsigned_script_sig=("push", ("p2wpkh", K)), explicit_script=("p2wpkh", K)),
}

# where the satisfaction goes: (witness list, scriptSig term); W = the script's own witness elements
W = ("W",)
SIG = ("sig",)
SATISFACTION = {
    "Bare": ([], ("pushes", [W])),
    "Pkh": ([], ("script", ("push", SIG), ("pushkey", K))),
    "Wpkh": ([SIG, ("keybytes", K)], EMPTY),
    "Wsh": ([W, E], EMPTY),
    "Sh": ([], ("pushes", [W, E])),
    "ShWsh": ([W, E], ("push", ("p2wsh", E))),
    "ShWpkh": ([SIG, ("keybytes", K)], ("push", ("p2wpkh", K))),
    "Tr-script": ([W, ("leafscript",), ("controlblock",)], EMPTY),
    "Tr-key": ([SIG], EMPTY),
}

# DescriptorType -> what Plan::satisfy must append to the completed template and where it goes
# (template = the witness template of the plan, T)
PLAN = {
    "Bare": ([], ("pushes", ["T"])),
    "Pkh": ([], ("pushes", ["T"])),
    "Sh": ([], ("pushes", ["T", E])),
    "Wpkh": (["T"], EMPTY),
    "Tr": (["T"], EMPTY),
    "ShWpkh": (["T"], "unsigned_script_sig"),
    "Wsh": (["T", E], "unsigned_script_sig"),
    "ShWsh": (["T", E], "unsigned_script_sig"),
}

SEGWIT_TYPES = {"Wpkh", "Wsh", "ShWpkh", "ShWsh", "Tr"}

# BIP-174 updater role: (redeem_script, witness_script) recorded for an input / output of each type
PSBT_SCRIPTS = {
    "Bare": (None, None), "Pkh": (None, None), "Wpkh": (None, None),
    "Wsh": (None, E), "Sh": (E, None), "ShWsh": (("p2wsh", E), E), "ShWpkh": (("p2wpkh", K), None),
}
