"""Oracle: canonical (dis)satisfaction templates of every Miniscript fragment.

Transcribed from the Miniscript specification ("Satisfactions and malleability":
basic satisfactions table) -- DESIGN.md Appendix C. Independent of the library.

Witness stacks are lists written bottom -> top (the last element is consumed
first by the script). Atoms:
  "0"          empty push            "1"       push of 0x01
  "zeros32"    32 zero bytes (any non-preimage)
  ("sig", K)   signature for key K   ("key", K) public key K
  ("pre",)     hash preimage
  ("S", i) / ("D", i)   the satisfaction / dissatisfaction witness of child i
IMPOSSIBLE = no canonical witness exists.
("alt", a, b) = either witness (selection is the satisfier's business).
"""

IMPOSSIBLE = "IMPOSSIBLE"


def S(i):
    return ("S", i)


def D(i):
    return ("D", i)


def alt(a, b):
    return ("alt", a, b)


# variant -> (sat, dissat) with children numbered left to right from 0
TEMPLATES = {
    "False": (IMPOSSIBLE, []),
    "True": ([], IMPOSSIBLE),
    "PkK": ([("sig", "K0")], ["0"]),
    "PkH": ([("sig", "K0"), ("key", "K0")], ["0", ("key", "K0")]),
    "RawPkH": ([("sig", "KH"), ("key", "KH")], ["0", ("key", "KH")]),
    "After": ([], IMPOSSIBLE),
    "Older": ([], IMPOSSIBLE),
    "Sha256": ([("pre",)], ["zeros32"]),
    "Hash256": ([("pre",)], ["zeros32"]),
    "Ripemd160": ([("pre",)], ["zeros32"]),
    "Hash160": ([("pre",)], ["zeros32"]),
    "Alt": ([S(0)], [D(0)]),
    "Swap": ([S(0)], [D(0)]),
    "Check": ([S(0)], [D(0)]),
    "ZeroNotEqual": ([S(0)], [D(0)]),
    "DupIf": ([S(0), "1"], ["0"]),
    "Verify": ([S(0)], IMPOSSIBLE),
    "NonZero": ([S(0)], ["0"]),
    "AndV": ([S(1), S(0)], [D(1), S(0)]),
    "AndB": ([S(1), S(0)], [D(1), D(0)]),
    "AndOr": (alt([S(1), S(0)], [S(2), D(0)]), [D(2), D(0)]),
    "OrB": (alt([D(1), S(0)], [S(1), D(0)]), [D(1), D(0)]),
    "OrC": (alt([S(0)], [S(1), D(0)]), IMPOSSIBLE),
    "OrD": (alt([S(0)], [S(1), D(0)]), [D(1), D(0)]),
    "OrI": (alt([S(0), "1"], [S(1), "0"]), alt([D(0), "1"], [D(1), "0"])),
}

# which fragments have a signature in every satisfaction (leaf level)
LEAF_HAS_SIG = {
    "False": False, "True": False, "PkK": True, "PkH": True, "RawPkH": True, "After": False, "Older": False,
    "Sha256": False, "Hash256": False, "Ripemd160": False, "Hash160": False,
    "Multi": True, "SortedMulti": True, "MultiA": True, "SortedMultiA": True,
}


def thresh_dissat(n):
    """all children dissatisfied, first child on top"""
    return [D(i) for i in reversed(range(n))]


def thresh_all_sat(n):
    return [S(i) for i in reversed(range(n))]


def multi_sat(k, keys):
    """CHECKMULTISIG: dummy, then k signatures in key order"""
    return ["0"] + [("sig", kk) for kk in keys[:k]]


def multi_dissat(k):
    return ["0"] * (k + 1)


def multi_a_dissat(n):
    return ["0"] * n


def multi_a_sat_ok(stack, k, keys):
    """CHECKSIGADD chain: one element per key, last key deepest; each element is that key's
    signature or an empty push; exactly k signatures."""
    n = len(keys)
    if len(stack) != n:
        return False
    sigs = 0
    for j, el in enumerate(stack):
        kk = keys[n - 1 - j]
        if el == ("sig", kk):
            sigs += 1
        elif el != "0":
            return False
    return sigs == k


# Selection rules (DESIGN.md Appendix C)
#   combine: IMPOSSIBLE absorbs, then UNAVAILABLE, else concatenation
#   non-malleable minimum(a, b):
#       a IMPOSSIBLE -> b ; b IMPOSSIBLE -> a
#       neither has a signature -> UNAVAILABLE (third party could switch)
#       exactly one lacks a signature -> that one (result counts as sig-free)
#       both signed -> the cheaper (an available stack is cheaper than an unavailable one)
#   malleable minimum_mall(a, b): unavailable/impossible loses; else the cheaper;
#       has_sig only if both have
def minimum_spec(a, b):
    """a, b: (kind, size, has_sig) with kind in STACK/UNAVAILABLE/IMPOSSIBLE.
    returns ('a'|'b'|'UNAVAILABLE', has_sig)"""
    if a[0] == "IMPOSSIBLE":
        return ("b", b[2])
    if b[0] == "IMPOSSIBLE":
        return ("a", a[2])
    if not a[2] and not b[2]:
        return ("UNAVAILABLE", False)
    if not a[2]:
        return ("a", False)
    if not b[2]:
        return ("b", False)
    return ("a" if _less(a, b) else "b", True)


def minimum_mall_spec(a, b):
    if a[0] in ("IMPOSSIBLE", "UNAVAILABLE"):
        return ("b", b[2])
    if b[0] in ("IMPOSSIBLE", "UNAVAILABLE"):
        return ("a", a[2])
    return ("a" if _less(a, b) else "b", a[2] and b[2])


def _rank(x):
    # Stack < Impossible < Unavailable (available things are cheapest)
    return {"STACK": 0, "IMPOSSIBLE": 1, "UNAVAILABLE": 2}[x[0]]


def _less(a, b):
    if a[0] == "STACK" and b[0] == "STACK":
        return a[1] < b[1]
    return _rank(a) < _rank(b)


def combine_spec(a, b):
    if a == "IMPOSSIBLE" or b == "IMPOSSIBLE":
        return "IMPOSSIBLE"
    if a == "UNAVAILABLE" or b == "UNAVAILABLE":
        return "UNAVAILABLE"
    return "STACK"
