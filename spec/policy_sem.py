"""Oracle: truth-table semantics of abstract (semantic) and concrete policies.  Independent of the library.

A policy is a nested tuple:
  ("T",) ("F",) ("key", name) ("hash", alg, name) ("older", n) ("after", n) ("thresh", k, [subs])
Concrete policies additionally use ("and", [subs]) and ("or", [subs]) (weights are irrelevant to meaning).

Atoms are independent booleans (as the library's entailment treats them); lock-time filters substitute lock atoms
before the truth table is taken."""

import itertools

TYPE_FLAG = 1 << 22


def atoms(p, acc=None):
    acc = acc if acc is not None else []
    if p[0] in ("key", "hash", "older", "after"):
        if p not in acc:
            acc.append(p)
    elif p[0] == "thresh":
        for s in p[2]:
            atoms(s, acc)
    elif p[0] in ("and", "or"):
        for s in p[1]:
            atoms(s, acc)
    return acc


def ev(p, env):
    t = p[0]
    if t == "T":
        return True
    if t == "F":
        return False
    if t in ("key", "hash", "older", "after"):
        return env[p]
    if t == "thresh":
        return sum(1 for s in p[2] if ev(s, env)) >= p[1]
    if t == "and":
        return all(ev(s, env) for s in p[1])
    if t == "or":
        return any(ev(s, env) for s in p[1])
    raise ValueError(p)


def assignments(ats):
    for bits in itertools.product([False, True], repeat=len(ats)):
        yield dict(zip(ats, bits))


def table(p, ats):
    return tuple(ev(p, env) for env in assignments(ats))


def equivalent(p, q):
    ats = atoms(q, atoms(p))
    return table(p, ats) == table(q, ats)


def implies(p, q):
    ats = atoms(q, atoms(p))
    return all((not a) or b for a, b in zip(table(p, ats), table(q, ats)))


def rel_implied(n, age):
    """BIP-68: lock n is satisfied at age (same unit, value <=)"""
    return (n & TYPE_FLAG) == (age & TYPE_FLAG) and (n & 0xffff) <= (age & 0xffff)


def abs_implied(n, t):
    return (n < 500000000) == (t < 500000000) and n <= t


def subst(p, f):
    """replace atoms: f(atom) -> policy | None (keep)"""
    t = p[0]
    if t in ("key", "hash", "older", "after"):
        r = f(p)
        return p if r is None else r
    if t == "thresh":
        return ("thresh", p[1], [subst(s, f) for s in p[2]])
    if t in ("and", "or"):
        return (t, [subst(s, f) for s in p[1]])
    return p


def at_age(p, age):
    return subst(p, lambda a: (None if rel_implied(a[1], age) else ("F",)) if a[0] == "older" else None)


def at_lock_time(p, t):
    return subst(p, lambda a: (None if abs_implied(a[1], t) else ("F",)) if a[0] == "after" else None)


def min_keys(p):
    """fewest key atoms that are true in any satisfying assignment (None if unsatisfiable)"""
    ats = atoms(p)
    best = None
    for env in assignments(ats):
        if ev(p, env):
            n = sum(1 for a, v in env.items() if v and a[0] == "key")
            best = n if best is None else min(best, n)
    return best


def n_keys(p):
    t = p[0]
    if t == "key":
        return 1
    if t == "thresh":
        return sum(n_keys(s) for s in p[2])
    if t in ("and", "or"):
        return sum(n_keys(s) for s in p[1])
    return 0


def is_normal(p, top=True):
    """structural normal form promised by `normalized`: no constants below the root, no 1-child thresholds,
    no and-in-and / or-in-or nesting"""
    if p[0] != "thresh":
        return True
    k, subs = p[1], p[2]
    if len(subs) < 2 or not (1 <= k <= len(subs)):
        return False
    for s in subs:
        if s[0] in ("T", "F"):
            return False
        if s[0] == "thresh":
            if k == len(subs) and s[1] == len(s[2]):
                return False
            if k == 1 and s[1] == 1 and not (k == len(subs)):
                return False
            if not is_normal(s, False):
                return False
    return True


def lock_kinds(a):
    if a[0] == "older":
        return {"csv_time" if a[1] & TYPE_FLAG else "csv_height"}
    if a[0] == "after":
        return {"cltv_time" if a[1] >= 500000000 else "cltv_height"}
    return set()


def paths(p):
    """all minimal ways to satisfy p, each as a frozenset of lock kinds it needs (concrete-policy reading:
    and = all, or = one, thresh = any k-subset)"""
    t = p[0]
    if t == "T":
        return {frozenset()}
    if t == "F":
        return set()
    if t in ("key", "hash"):
        return {frozenset()}
    if t in ("older", "after"):
        return {frozenset(lock_kinds(p))}
    if t == "or":
        out = set()
        for s in p[1]:
            out |= paths(s)
        return out
    if t == "and":
        subs, k = p[1], len(p[1])
    else:
        subs, k = p[2], p[1]
    out = set()
    sub_paths = [paths(s) for s in subs]
    for combo in itertools.combinations(range(len(subs)), k):
        acc = {frozenset()}
        for i in combo:
            acc = {a | b for a in acc for b in sub_paths[i]}
            if not acc:
                break
        out |= acc
    return out


def mixed_locks(p):
    """some satisfying path needs both a height-based and a time-based lock of the same kind"""
    for ks in paths(p):
        if {"csv_time", "csv_height"} <= ks or {"cltv_time", "cltv_height"} <= ks:
            return True
    return False


def selftest():
    A, B = ("key", "A"), ("key", "B")
    assert equivalent(("thresh", 2, [A, B]), ("and", [A, B]))
    assert implies(("thresh", 2, [A, B]), A) and not implies(A, ("thresh", 2, [A, B]))
    assert min_keys(("thresh", 1, [A, ("older", 5)])) == 0
    assert min_keys(("thresh", 2, [A, A])) == 1
    assert mixed_locks(("and", [("older", 5), ("older", 5 | TYPE_FLAG)]))
    assert not mixed_locks(("or", [("older", 5), ("older", 5 | TYPE_FLAG)]))
    assert equivalent(at_age(("thresh", 1, [("older", 9), A]), 5), A)
    return True


if __name__ == "__main__":
    print(selftest())
