"""Oracle: what the Miniscript type labels say about execution (Miniscript specification, "Correctness properties"
and "Security properties" tables), as predicates over reference executions (spec/msexec.py).

check(ast, ctx, labels, ...) runs the specification's Script of the fragment on every input stack of a bounded family
(above two marker elements that must stay untouched) and returns the list of label predictions that fail.

labels: dict base in B/V/K/W, z, o, n, d, u (correctness) and s, f (security; `e` and `m` talk about third-party
malleation and are not decided here)."""

import itertools
import os
import sys

sys.path.insert(0, os.path.dirname(os.path.abspath(__file__)))
import msexec as X  # noqa: E402

M1 = X.Tok("marker", "m1", 7)
M2 = X.Tok("marker", "m2", 7)
TOP = X.Tok("marker", "top", 7)


def is_sig(v):
    return isinstance(v, X.Tok) and v.kind == "sig"


def alphabet(ast, ctx):
    kk = X.keykind(ctx)
    keys, hashes = [], []

    def go(n):
        if n.v in ("PkK", "PkH") and n.data not in keys:
            keys.append(n.data)
        elif n.v in ("Sha256", "Hash256", "Ripemd160", "Hash160") and n.data not in hashes:
            hashes.append(n.data)
        elif isinstance(n.data, tuple):
            for k in n.data[1]:
                if k not in keys:
                    keys.append(k)
        for c in n.kids:
            go(c)
    go(ast)
    out = [0, 1, 2, X.JUNK]
    for k in keys[:3]:
        out.append(X.sig(k, kk))
    for k in keys[:2]:
        out.append(X.key(k, kk))
    if keys:
        out.append(X.sig("ZZ", kk))
    for h in hashes[:2]:
        out.append(X.pre(h))
    if hashes:
        out.append(X.JUNK32)
        out.append(X.ZEROS32)
    return out


def default_tx(ast):
    lt, seq = 0, 0
    for kind, n in X.locks(ast):
        if kind == "After":
            lt = max(lt, n)
        else:
            seq = max(seq, n)
    tx = X.Tx(lock_time=lt, sequence=seq)
    # the type system assumes MINIMALIF (consensus in tapscript, standardness for P2WSH): Miniscript specification,
    # "the argument of IF / NOTIF is exactly empty or 0x01"
    tx.minimalif = True
    return tx


def stacks(alpha, maxlen, canon):
    seen = set()
    for ln in range(0, maxlen + 1):
        for w in itertools.product(alpha, repeat=ln):
            t = tuple(map(repr, w))
            if t not in seen:
                seen.add(t)
                yield list(w)
    for w in canon:
        t = tuple(map(repr, w))
        if t not in seen:
            seen.add(t)
            yield list(w)
        # canonical witnesses with one element replaced
        for i in range(len(w)):
            for a in alpha:
                x = list(w)
                x[i] = a
                t = tuple(map(repr, x))
                if t not in seen:
                    seen.add(t)
                    yield x


def check(ast, ctx, labels, maxlen=3):
    """-> (n_runs, n_sat, n_dissat, [failed prediction strings])"""
    if labels["base"] == "K":
        # a K fragment only pushes the key; its argument (the signature) is consumed by the `c:` that must follow,
        # and its z/o/n/d/u/s/f labels describe that completed form
        r1 = _check(ast, ctx, {"base": "K"}, maxlen)
        l2 = dict(labels)
        l2["base"] = "B"
        r2 = _check(X.Node("Check", [ast]), ctx, l2, maxlen)
        return r1[0] + r2[0], r1[1] + r2[1], r1[2] + r2[2], r1[3] + r2[3]
    return _check(ast, ctx, labels, maxlen)


def _check(ast, ctx, labels, maxlen=3):
    sc = X.script(ast, ctx)
    tx = default_tx(ast)
    alpha = alphabet(ast, ctx)
    base = labels["base"]
    sats, dis = X.witnesses(ast, ctx)
    fails = []
    n_runs = n_sat = n_dis = 0
    found_free_dissat = False
    consumed_counts = set()

    def fail(msg):
        if len(fails) < 6 and msg not in fails:
            fails.append(msg)
    for w in stacks(alpha, maxlen, sats + dis):
        inp = [M1, M2] + w + ([TOP] if base == "W" else [])
        res, log, why = X.run_fragment(sc, inp, tx, ctx)
        if res is None:
            continue                      # the script aborts: no prediction
        n_runs += 1
        # ---- shape
        if base == "W":
            if len(res) < 2:
                fail("W: fewer than two elements left on %r" % (w,))
                continue
            if res[-2] is TOP or res[-2] == TOP:
                r, rest = res[-1], res[:-2]
            elif res[-1] == TOP:
                r, rest = res[-2], res[:-2]
            else:
                if res[:2] != [M1, M2]:
                    continue              # ran into the markers: input too short
                fail("W: the top element is not preserved on %r -> %r" % (w, res))
                continue
        elif base == "V":
            r, rest = None, res
        else:
            if not res:
                continue
            r, rest = res[-1], res[:-1]
        if rest[:2] != [M1, M2] or len(rest) > 2 + len(w) or rest[2:] != w[:len(rest) - 2]:
            if rest[:2] != [M1, M2] or len(rest) < 2:
                continue                  # consumed the markers: input too short for this path
            fail("%s: result %r is not (unconsumed input)%s on %r" % (base, res, " + one value" if base != "V" else "", w))
            continue
        c = len(w) - (len(rest) - 2)
        consumed_counts.add(c)
        sat = None
        if base in ("B", "W"):
            # satisfied: any non-zero value; dissatisfied: an exact 0 (the empty vector)
            if X.truth(r):
                sat = True
            elif isinstance(r, int) and not isinstance(r, bool) and r == 0:
                sat = False
            else:
                fail("%s: leaves the false value %r, which is not an exact 0, on %r" % (base, r, w))
                continue
        elif base == "K":
            if not (isinstance(r, X.Tok) and r.kind == "key"):
                fail("K: pushes %r, not a key, on %r" % (r, w))
                continue
            sat = True
        else:
            sat = True
        has_sig_check = any(l[0] == "sig" for l in log)
        sig_in_input = any(is_sig(x) for x in w[len(w) - c:]) if c else False
        if sat:
            n_sat += 1
            if labels.get("u") and base in ("B", "W") and r != 1:
                fail("u: satisfied with %r on the stack, not 1, on %r" % (r, w))
            if labels.get("s") and not has_sig_check and base != "K":
                fail("s: succeeds without checking any signature on %r" % (w,))
            if labels.get("n"):
                if c < 1:
                    fail("n: satisfied consuming nothing on %r" % (w,))
                elif not X.truth(w[-1]):
                    fail("n: satisfied with a zero top input element on %r" % (w,))
        else:
            n_dis += 1
            if base == "V":
                fail("V: dissatisfied without aborting on %r" % (w,))
            if not sig_in_input:
                found_free_dissat = True
                if labels.get("f"):
                    fail("f: leaves 0 without any signature in its input on %r" % (w,))
        if labels.get("z") and c != 0:
            fail("z: consumes %d element(s) on %r" % (c, w))
        if labels.get("o") and c != 1:
            fail("o: consumes %d element(s) on %r" % (c, w))
    # canonical witnesses of the specification do what they are for
    if base in ("B", "W"):
        for w, want in [(x, True) for x in sats] + [(x, False) for x in dis]:
            inp = [M1, M2] + w + ([TOP] if base == "W" else [])
            res, log, why = X.run_fragment(sc, inp, tx, ctx)
            if res is None:
                fail("canonical: the specification's %s %r aborts (%s)" % ("satisfaction" if want else "dissatisfaction", w, why))
                continue
            r = res[-1] if (base == "B" or res[-1] != TOP) else res[-2]
            if base == "W" and res[-1] == TOP:
                r = res[-2]
            if X.truth(r) != want:
                fail("canonical: the specification's %s %r leaves %r" % ("satisfaction" if want else "dissatisfaction", w, r))
    if labels.get("d") and base in ("B", "W") and not found_free_dissat:
        fail("d: no signature-free input leaves 0 (searched stacks up to length %d and all single substitutions of the "
             "canonical witnesses)" % maxlen)
    return n_runs, n_sat, n_dis, fails


def selftest():
    P = X.parse
    r = check(P("pk(A)"), "segwitv0", {"base": "B", "o": True, "n": True, "d": True, "u": True, "s": True})
    assert not r[3], r
    r = check(P("pk(A)"), "segwitv0", {"base": "B", "z": True})
    assert r[3], r
    r = check(P("v:pk(A)"), "segwitv0", {"base": "V", "o": True, "n": True, "f": True, "s": True})
    assert not r[3], r
    r = check(P("s:pk(A)"), "segwitv0", {"base": "W", "o": True, "d": True, "u": True, "s": True})
    assert not r[3], r
    r = check(P("older(5)"), "segwitv0", {"base": "B", "z": True, "f": True})
    assert not r[3], r
    r = check(P("older(5)"), "segwitv0", {"base": "B", "z": True, "u": True})
    assert r[3], r
    return True


if __name__ == "__main__":
    print(selftest())
