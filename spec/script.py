"""Oracle: Bitcoin Script template of every Miniscript fragment (DESIGN.md Appendix B),
opcode byte values (Bitcoin consensus), number-push sizes and the lexer token table.
Independent of the library."""

OP = {
    "0": 0x00, "1": 0x51, "IF": 0x63, "NOTIF": 0x64, "ELSE": 0x67, "ENDIF": 0x68, "VERIFY": 0x69,
    "TOALTSTACK": 0x6b, "FROMALTSTACK": 0x6c, "IFDUP": 0x73, "DROP": 0x75, "DUP": 0x76, "SWAP": 0x7c,
    "SIZE": 0x82, "EQUAL": 0x87, "EQUALVERIFY": 0x88, "0NOTEQUAL": 0x92, "ADD": 0x93, "BOOLAND": 0x9a,
    "BOOLOR": 0x9b, "NUMEQUAL": 0x9c, "NUMEQUALVERIFY": 0x9d, "RIPEMD160": 0xa6, "SHA256": 0xa8,
    "HASH160": 0xa9, "HASH256": 0xaa, "CHECKSIG": 0xac, "CHECKSIGVERIFY": 0xad, "CHECKMULTISIG": 0xae,
    "CHECKMULTISIGVERIFY": 0xaf, "CLTV": 0xb1, "CSV": 0xb2, "CHECKSIGADD": 0xba,
}
OPNAME = {v: k for k, v in OP.items()}

# opcodes that have a fused ...VERIFY form (x -> xVERIFY)
FUSED = {OP["EQUAL"]: OP["EQUALVERIFY"], OP["NUMEQUAL"]: OP["NUMEQUALVERIFY"],
         OP["CHECKSIG"]: OP["CHECKSIGVERIFY"], OP["CHECKMULTISIG"]: OP["CHECKMULTISIGVERIFY"]}


def o(name):
    return ("op", OP[name])


def hash_tmpl(hashop, pushlen):
    return [o("SIZE"), ("num", 32), o("EQUALVERIFY"), o(hashop), ("push", pushlen), o("EQUAL")]


def C(i):
    return ("child", i)


# variant -> token list. ("num", x): minimal number push of x ("k", "n", "locktime" symbolic);
# ("push", 20|32): hash push; ("key", i): key i as the context serialises it; ("keyhash",): 20-byte key hash
TEMPLATES = {
    "False": [o("0")],
    "True": [o("1")],
    "PkK": [("key", 0)],
    "PkH": [o("DUP"), o("HASH160"), ("keyhash",), o("EQUALVERIFY")],
    "RawPkH": [o("DUP"), o("HASH160"), ("push", 20), o("EQUALVERIFY")],
    "After": [("num", "locktime"), o("CLTV")],
    "Older": [("num", "locktime"), o("CSV")],
    "Sha256": hash_tmpl("SHA256", 32),
    "Hash256": hash_tmpl("HASH256", 32),
    "Ripemd160": hash_tmpl("RIPEMD160", 20),
    "Hash160": hash_tmpl("HASH160", 20),
    "Alt": [o("TOALTSTACK"), C(0), o("FROMALTSTACK")],
    "Swap": [o("SWAP"), C(0)],
    "Check": [C(0), o("CHECKSIG")],
    "DupIf": [o("DUP"), o("IF"), C(0), o("ENDIF")],
    "Verify": [C(0), ("verify",)],
    "NonZero": [o("SIZE"), o("0NOTEQUAL"), o("IF"), C(0), o("ENDIF")],
    "ZeroNotEqual": [C(0), o("0NOTEQUAL")],
    "AndV": [C(0), C(1)],
    "AndB": [C(0), C(1), o("BOOLAND")],
    "AndOr": [C(0), o("NOTIF"), C(2), o("ELSE"), C(1), o("ENDIF")],
    "OrB": [C(0), C(1), o("BOOLOR")],
    "OrD": [C(0), o("IFDUP"), o("NOTIF"), C(1), o("ENDIF")],
    "OrC": [C(0), o("NOTIF"), C(1), o("ENDIF")],
    "OrI": [o("IF"), C(0), o("ELSE"), C(1), o("ENDIF")],
}


def thresh_tmpl(n):
    t = [C(0)]
    for i in range(1, n):
        t += [C(i), o("ADD")]
    return t + [("num", "k"), o("EQUAL")]


def multi_tmpl(n, keys=None):
    keys = keys if keys is not None else list(range(n))
    return [("num", "k")] + [("key", i) for i in keys] + [("num", n), o("CHECKMULTISIG")]


def multi_a_tmpl(n, keys=None):
    keys = keys if keys is not None else list(range(n))
    t = [("key", keys[0]), o("CHECKSIG")]
    for i in keys[1:]:
        t += [("key", i), o("CHECKSIGADD")]
    return t + [("num", "k"), o("NUMEQUAL")]


def script_num_size(n):
    """bytes needed for a minimal push of the non-negative number n"""
    if n <= 16:
        return 1
    if n < 0x80:
        return 2
    if n < 0x8000:
        return 3
    if n < 0x800000:
        return 4
    if n < 0x80000000:
        return 5
    return 6


# non-push opcode count of each template (static ops), children excluded
def static_ops(tokens):
    return sum(1 for t in tokens if t[0] == "op" and t[1] > 0x60)


# Lexer: opcode byte -> token names (in lexing order); everything else is rejected
LEX = {
    OP["BOOLAND"]: ["BoolAnd"], OP["BOOLOR"]: ["BoolOr"], OP["EQUAL"]: ["Equal"],
    OP["EQUALVERIFY"]: ["Equal", "Verify"], OP["NUMEQUAL"]: ["NumEqual"],
    OP["NUMEQUALVERIFY"]: ["NumEqual", "Verify"], OP["CHECKSIG"]: ["CheckSig"],
    OP["CHECKSIGVERIFY"]: ["CheckSig", "Verify"], OP["CHECKSIGADD"]: ["CheckSigAdd"],
    OP["CHECKMULTISIG"]: ["CheckMultiSig"], OP["CHECKMULTISIGVERIFY"]: ["CheckMultiSig", "Verify"],
    OP["CSV"]: ["CheckSequenceVerify"], OP["CLTV"]: ["CheckLockTimeVerify"],
    OP["FROMALTSTACK"]: ["FromAltStack"], OP["TOALTSTACK"]: ["ToAltStack"], OP["DROP"]: ["Drop"],
    OP["DUP"]: ["Dup"], OP["ADD"]: ["Add"], OP["IF"]: ["If"], OP["IFDUP"]: ["IfDup"], OP["NOTIF"]: ["NotIf"],
    OP["ELSE"]: ["Else"], OP["ENDIF"]: ["EndIf"], OP["0NOTEQUAL"]: ["ZeroNotEqual"], OP["SIZE"]: ["Size"],
    OP["SWAP"]: ["Swap"], OP["VERIFY"]: ["Verify"], OP["RIPEMD160"]: ["Ripemd160"], OP["HASH160"]: ["Hash160"],
    OP["SHA256"]: ["Sha256"], OP["HASH256"]: ["Hash256"],
}
for _i in range(1, 17):
    LEX[0x50 + _i] = ["Num(%d)" % _i]
LEX[0x00] = ["Num(0)"]

# a separate OP_VERIFY after one of these is non-canonical (the fused opcode exists) and must be rejected
NON_MINIMAL_VERIFY_AFTER = sorted(FUSED)
