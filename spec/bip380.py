"""Oracle: BIP-380 descriptor checksum (reference implementation transcribed from the BIP text)
and a model of the bech32 crate's generic checksum engine (external dependency of the library).

Independent of the library: the constants and the algorithm below come from BIP-380
("Checksum" section) -- INPUT_CHARSET, CHECKSUM_CHARSET, GENERATOR, descsum_polymod, descsum_expand,
descsum_create, descsum_check -- plus the BIP's own test vectors."""

INPUT_CHARSET = ("0123456789()[],'/*abcdefgh@:$%{}"
                 "IJKLMNOPQRSTUVWXYZ&+-.;<=>?!^_|~"
                 "ijklmnopqrstuvwxyzABCDEFGH`#\"\\ ")
CHECKSUM_CHARSET = "qpzry9x8gf2tvdw0s3jn54khce6mua7l"
GENERATOR = [0xf5dee51989, 0xa9fdca3312, 0x1bab10e32d, 0x3706b1677a, 0x644d626ffd]
CHECKSUM_LENGTH = 8
TARGET_RESIDUE = 1


def descsum_polymod(symbols):
    """Internal function that computes the descriptor checksum."""
    chk = 1
    for value in symbols:
        top = chk >> 35
        chk = (chk & 0x7ffffffff) << 5 ^ value
        for i in range(5):
            chk ^= GENERATOR[i] if ((top >> i) & 1) else 0
    return chk


def descsum_expand(s):
    """Internal function that does the character to symbol expansion"""
    groups = []
    symbols = []
    for c in s:
        if c not in INPUT_CHARSET:
            return None
        v = INPUT_CHARSET.find(c)
        symbols.append(v & 31)
        groups.append(v >> 5)
        if len(groups) == 3:
            symbols.append(groups[0] * 9 + groups[1] * 3 + groups[2])
            groups = []
    if len(groups) == 1:
        symbols.append(groups[0])
    elif len(groups) == 2:
        symbols.append(groups[0] * 3 + groups[1])
    return symbols


def descsum_check(s):
    """Verify that the checksum is correct in a descriptor"""
    if s[-9] != '#':
        return False
    if not all(x in CHECKSUM_CHARSET for x in s[-8:]):
        return False
    symbols = descsum_expand(s[:-9]) + [CHECKSUM_CHARSET.find(x) for x in s[-8:]]
    return descsum_polymod(symbols) == 1


def descsum_create(s):
    """Add a checksum to a descriptor without"""
    symbols = descsum_expand(s) + [0, 0, 0, 0, 0, 0, 0, 0]
    checksum = descsum_polymod(symbols) ^ 1
    return ''.join(CHECKSUM_CHARSET[(checksum >> (5 * (7 - i))) & 31] for i in range(8))


# BIP-380 test vectors (valid)
VECTORS = [
    ("raw(deadbeef)", "89f8spxm"),
]


class Bech32Engine(object):
    """bech32::primitives::checksum::Engine<Ck> for a u64 midstate (bech32 0.11 source):
    residue starts at ONE; input_fe multiplies by x, adds the element and reduces by GENERATOR_SH."""

    def __init__(self, generator_sh, checksum_length, target_residue):
        self.gen = list(generator_sh)
        self.length = checksum_length
        self.target = target_residue
        self.residue = 1
        self.fed = []

    @staticmethod
    def unpack(v, n):
        return (v >> (n * 5)) & 0x1f

    def input_fe(self, e):
        if not 0 <= e < 32:
            raise ValueError("not a field element: %r" % (e,))
        self.fed.append(e)
        degree = self.length
        xn = self.unpack(self.residue, degree - 1)
        r = self.residue & ~(0x1f << ((degree - 1) * 5))
        r = (r << 5) & (2**64 - 1)
        r |= e
        for i in range(5):
            if xn & (1 << i):
                r ^= self.gen[i]
        self.residue = r

    def input_target_residue(self):
        for i in range(self.length):
            self.input_fe(self.unpack(self.target, self.length - i - 1))


def selftest():
    assert len(INPUT_CHARSET) == 95 and len(set(INPUT_CHARSET)) == 95
    for body, cs in VECTORS:
        assert descsum_create(body) == cs, (body, descsum_create(body))
        assert descsum_check(body + "#" + cs)
    # the engine model reproduces the reference on a few strings
    for s in ["raw(deadbeef)", "a", "ab", "abc", "wsh(pk(K))", INPUT_CHARSET]:
        e = Bech32Engine(GENERATOR, CHECKSUM_LENGTH, TARGET_RESIDUE)
        for sym in descsum_expand(s):
            e.input_fe(sym)
        e.input_target_residue()
        got = "".join(CHECKSUM_CHARSET[e.unpack(e.residue, 7 - i)] for i in range(8))
        assert got == descsum_create(s), (s, got, descsum_create(s))
    return True


if __name__ == "__main__":
    print(selftest())
