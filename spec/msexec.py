"""Oracle: reference execution of miniscript-generated Bitcoin Script over abstract witness values.

Independent of the library.  Pieces:
  * parse(text)            miniscript text -> AST (sugar expanded as the Miniscript specification defines it)
  * script(ast, ctx)       AST -> list of script items from spec/script.py's templates
  * execute(items, stack, tx, ctx) -> (accepted, log)   Bitcoin Script semantics (consensus rules) on abstract values
  * witnesses(ast, ctx)    canonical satisfactions / dissatisfactions from spec/satisfaction.py's templates

Abstract values: Python ints are script numbers (0 is the empty vector, 1 is [0x01]); Tok are opaque byte strings
(signatures, keys, preimages, 32 zero bytes, junk) with a length and an all-zero flag; hash outputs are tuples
("hash", algorithm, what).  A signature token ("sig", K, kind) is valid exactly for the key token ("key", K, kind).
"""

import itertools
import os
import sys

sys.path.insert(0, os.path.dirname(os.path.abspath(__file__)))
import script as S          # noqa: E402
import satisfaction as SAT  # noqa: E402


class Tok(object):
    __slots__ = ("kind", "name", "length", "nonzero", "extra")

    def __init__(self, kind, name, length, nonzero=True, extra=None):
        self.kind, self.name, self.length, self.nonzero, self.extra = kind, name, length, nonzero, extra

    def key(self):
        return (self.kind, self.name, self.length, self.nonzero, self.extra)

    def __eq__(self, o):
        return isinstance(o, Tok) and self.key() == o.key()

    def __ne__(self, o):
        return not self == o

    def __hash__(self):
        return hash(self.key())

    def __repr__(self):
        return "%s:%s" % (self.kind, self.name) if self.extra is None else "%s:%s/%s" % (self.kind, self.name, self.extra)

    def __len__(self):
        return self.length

    def __lt__(self, o):
        return repr(self) < repr(o)


def sig(k, kind="ecdsa"):
    return Tok("sig", k, 72 if kind == "ecdsa" else 64, True, kind)


def key(k, kind="ecdsa"):
    return Tok("key", k, 33 if kind == "ecdsa" else 32, True, kind)


def pre(h):
    return Tok("pre", h, 32)


ZEROS32 = Tok("zeros", "32", 32, False)
JUNK = Tok("junk", "5", 5)
JUNK32 = Tok("junk", "32", 32)


# ---------------------------------------------------------------------------------------------- parsing

class Node(object):
    __slots__ = ("v", "kids", "data")

    def __init__(self, v, kids=(), data=None):
        self.v, self.kids, self.data = v, list(kids), data

    def __repr__(self):
        return "%s%s%s" % (self.v, "[%r]" % (self.data,) if self.data is not None else "",
                           "(%s)" % ",".join(map(repr, self.kids)) if self.kids else "")


WRAP = {"a": "Alt", "s": "Swap", "c": "Check", "d": "DupIf", "v": "Verify", "j": "NonZero", "n": "ZeroNotEqual"}
NAMES = {"and_v": "AndV", "and_b": "AndB", "or_b": "OrB", "or_c": "OrC", "or_d": "OrD", "or_i": "OrI", "andor": "AndOr"}
HASHES = {"sha256": "Sha256", "hash256": "Hash256", "ripemd160": "Ripemd160", "hash160": "Hash160"}
MULTIS = {"multi": "Multi", "sortedmulti": "SortedMulti", "multi_a": "MultiA", "sortedmulti_a": "SortedMultiA"}


def _split_args(s):
    args, depth, cur = [], 0, ""
    for ch in s:
        if ch == "(":
            depth += 1
        elif ch == ")":
            depth -= 1
        if ch == "," and depth == 0:
            args.append(cur)
            cur = ""
        else:
            cur += ch
    if cur:
        args.append(cur)
    return args


def parse(text):
    text = text.strip()
    i = text.find("(")
    head = text if i < 0 else text[:i]
    args = [] if i < 0 else _split_args(text[i + 1:-1])
    wrappers = ""
    if ":" in head:
        wrappers, head = head.split(":", 1)
    if head == "0":
        n = Node("False")
    elif head == "1":
        n = Node("True")
    elif head == "pk_k":
        n = Node("PkK", data=args[0])
    elif head == "pk_h":
        n = Node("PkH", data=args[0])
    elif head == "pk":
        n = Node("Check", [Node("PkK", data=args[0])])
    elif head == "pkh":
        n = Node("Check", [Node("PkH", data=args[0])])
    elif head == "after":
        n = Node("After", data=int(args[0]))
    elif head == "older":
        n = Node("Older", data=int(args[0]))
    elif head in HASHES:
        n = Node(HASHES[head], data=args[0])
    elif head in NAMES:
        n = Node(NAMES[head], [parse(a) for a in args])
    elif head == "and_n":
        n = Node("AndOr", [parse(args[0]), parse(args[1]), Node("False")])
    elif head == "thresh":
        n = Node("Thresh", [parse(a) for a in args[1:]], data=int(args[0]))
    elif head in MULTIS:
        n = Node(MULTIS[head], data=(int(args[0]), list(args[1:])))
    else:
        raise ValueError("unknown fragment %r" % head)
    for w in reversed(wrappers):
        if w in WRAP:
            n = Node(WRAP[w], [n])
        elif w == "t":
            n = Node("AndV", [n, Node("True")])
        elif w == "l":
            n = Node("OrI", [Node("False"), n])
        elif w == "u":
            n = Node("OrI", [n, Node("False")])
        else:
            raise ValueError("unknown wrapper %r" % w)
    return n


# ---------------------------------------------------------------------------------------------- script

def keykind(ctx):
    return "schnorr" if ctx == "tap" else "ecdsa"


def script(n, ctx):
    """list of items: ('op', NAME) | ('push', value)"""
    kk = keykind(ctx)
    v = n.v
    if v == "Thresh":
        tmpl = S.thresh_tmpl(len(n.kids))
    elif v in ("Multi", "SortedMulti"):
        tmpl = S.multi_tmpl(len(n.data[1]))
    elif v in ("MultiA", "SortedMultiA"):
        tmpl = S.multi_a_tmpl(len(n.data[1]))
    else:
        tmpl = S.TEMPLATES[v]
    out = []
    for t in tmpl:
        if t[0] == "op":
            out.append(("op", S.OPNAME[t[1]]))
        elif t[0] == "child":
            out += script(n.kids[t[1]], ctx)
        elif t[0] == "verify":
            # fused with the previous opcode when it has a ...VERIFY form
            if out and out[-1][0] == "op" and S.OP[out[-1][1]] in S.FUSED:
                out[-1] = ("op", S.OPNAME[S.FUSED[S.OP[out[-1][1]]]])
            else:
                out.append(("op", "VERIFY"))
        elif t[0] == "num":
            x = t[1]
            if x == "k":
                x = n.data if v == "Thresh" else n.data[0]
            elif x == "locktime":
                x = n.data
            out.append(("push", x))
        elif t[0] == "key":
            keys = n.data[1] if isinstance(n.data, tuple) else [n.data]
            if v in ("SortedMulti", "SortedMultiA"):
                keys = sorted(keys)
            out.append(("push", key(keys[t[1]], kk)))
        elif t[0] == "keyhash":
            out.append(("push", ("hash", "HASH160", key(n.data, kk))))
        elif t[0] == "push":
            alg = {"Sha256": "SHA256", "Hash256": "HASH256", "Ripemd160": "RIPEMD160", "Hash160": "HASH160",
                   "RawPkH": "HASH160"}[v]
            out.append(("push", ("hash", alg, pre(n.data))))
        else:
            raise ValueError(t)
    return out


# ---------------------------------------------------------------------------------------------- execution

class Fail(Exception):
    pass


def truth(v):
    if isinstance(v, int):
        return v != 0
    if isinstance(v, Tok):
        return v.nonzero
    return True


def num(v):
    if isinstance(v, bool):
        return int(v)
    if isinstance(v, int):
        # consensus: operands of the numeric opcodes are script numbers of at most 4 bytes (results may be longer, and
        # CHECKLOCKTIMEVERIFY / CHECKSEQUENCEVERIFY read up to 5 bytes themselves)
        if abs(v) > 0x7fffffff:
            raise Fail("numeric operand %d longer than 4 bytes" % v)
        return v
    # byte strings longer than 4 bytes are not numbers; none of the tokens is that short
    raise Fail("non-numeric operand %r" % (v,))


def size(v):
    if isinstance(v, int):
        n, k = abs(v), 0
        while n:
            k += 1
            n >>= 8
        if v != 0 and (abs(v) >> (8 * k - 1)) & 1:
            k += 1          # sign bit needs another byte
        return k
    if isinstance(v, Tok):
        return v.length
    if isinstance(v, tuple) and v[0] == "hash":
        return 20 if v[1] in ("HASH160", "RIPEMD160") else 32
    raise Fail("size of %r" % (v,))


def checksig(sigv, keyv, ctx, log, in_multisig=False):
    """-> bool ; raises Fail where consensus fails the script"""
    if isinstance(sigv, int) and sigv == 0:
        return False
    kk = keykind(ctx)
    ok = isinstance(sigv, Tok) and sigv.kind == "sig" and isinstance(keyv, Tok) and keyv.kind == "key" \
        and sigv.name == keyv.name and sigv.extra == keyv.extra == kk
    if ok:
        log.append(("sig", keyv.name))
        return True
    if ctx == "tap":
        raise Fail("invalid non-empty signature in tapscript")
    if getattr(_CUR_TX[0], "nullfail", False) and not in_multisig:
        raise Fail("NULLFAIL")
    return False


_CUR_TX = [None]


class Tx(object):
    def __init__(self, lock_time=0, sequence=0xffffffff):
        self.lock_time = lock_time
        self.sequence = sequence


def cltv_ok(n, tx):
    if n < 0:
        return False
    if (n < 500000000) != (tx.lock_time < 500000000):
        return False
    if n > tx.lock_time:
        return False
    return tx.sequence != 0xffffffff


def csv_ok(n, tx):
    """BIP112 (n has no disable flag in miniscript)"""
    if n < 0:
        return False
    if n & (1 << 31):
        return True
    if tx.sequence & (1 << 31):
        return False
    mask = (1 << 22) | 0xffff
    if (n & (1 << 22)) != (tx.sequence & (1 << 22)):
        return False
    return (n & mask) <= (tx.sequence & mask)


def run_fragment(items, stack, tx, ctx):
    """execute a (non-top-level) fragment: -> (final stack | None if the script aborts, log, reason)"""
    r = execute(items, stack, tx, ctx, want_stack=True)
    return r


def execute(items, stack, tx, ctx, want_stack=False):
    """-> (accepted, log, reason)   [want_stack: (final stack | None, log, reason)]"""
    st = list(stack)
    alt = []
    log = []
    cond = []     # execution condition stack
    _CUR_TX[0] = tx

    def pop():
        if not st:
            raise Fail("stack underflow")
        return st.pop()
    try:
        for it in items:
            executing = all(cond)
            if it[0] == "push":
                if executing:
                    st.append(it[1])
                continue
            op = it[1]
            if op in ("IF", "NOTIF"):
                val = False
                if executing:
                    v = pop()
                    if (ctx == "tap" or getattr(tx, "minimalif", False)) and not (isinstance(v, int) and v in (0, 1)):
                        raise Fail("MINIMALIF")
                    val = truth(v)
                    if op == "NOTIF":
                        val = not val
                cond.append(val)
                continue
            if op == "ELSE":
                if not cond:
                    raise Fail("unbalanced ELSE")
                cond[-1] = not cond[-1]
                continue
            if op == "ENDIF":
                if not cond:
                    raise Fail("unbalanced ENDIF")
                cond.pop()
                continue
            if not executing:
                continue
            if op == "0":
                st.append(0)
            elif op == "1":
                st.append(1)
            elif op == "VERIFY":
                if not truth(pop()):
                    raise Fail("VERIFY")
            elif op == "TOALTSTACK":
                alt.append(pop())
            elif op == "FROMALTSTACK":
                if not alt:
                    raise Fail("alt stack underflow")
                st.append(alt.pop())
            elif op == "IFDUP":
                if not st:
                    raise Fail("stack underflow")
                if truth(st[-1]):
                    st.append(st[-1])
            elif op == "DROP":
                pop()
            elif op == "DUP":
                if not st:
                    raise Fail("stack underflow")
                st.append(st[-1])
            elif op == "SWAP":
                if len(st) < 2:
                    raise Fail("stack underflow")
                st[-1], st[-2] = st[-2], st[-1]
            elif op == "SIZE":
                if not st:
                    raise Fail("stack underflow")
                st.append(size(st[-1]))
            elif op in ("EQUAL", "EQUALVERIFY"):
                b, a = pop(), pop()
                r = (a == b) and type(a) == type(b) or (isinstance(a, int) and isinstance(b, int) and a == b)
                if r and isinstance(a, tuple) and a[0] == "hash" and isinstance(a[2], Tok) and a[2].kind == "pre":
                    log.append(("hash", a[1], a[2].name))
                if op == "EQUALVERIFY":
                    if not r:
                        raise Fail("EQUALVERIFY")
                else:
                    st.append(1 if r else 0)
            elif op == "0NOTEQUAL":
                st.append(1 if num(pop()) != 0 else 0)
            elif op == "ADD":
                b, a = num(pop()), num(pop())
                st.append(a + b)
            elif op == "BOOLAND":
                b, a = num(pop()), num(pop())
                st.append(1 if (a != 0 and b != 0) else 0)
            elif op == "BOOLOR":
                b, a = num(pop()), num(pop())
                st.append(1 if (a != 0 or b != 0) else 0)
            elif op in ("NUMEQUAL", "NUMEQUALVERIFY"):
                b, a = num(pop()), num(pop())
                if op == "NUMEQUALVERIFY":
                    if a != b:
                        raise Fail("NUMEQUALVERIFY")
                else:
                    st.append(1 if a == b else 0)
            elif op in ("RIPEMD160", "SHA256", "HASH160", "HASH256"):
                st.append(("hash", op, pop()))
            elif op in ("CHECKSIG", "CHECKSIGVERIFY"):
                k_, s_ = pop(), pop()
                r = checksig(s_, k_, ctx, log)
                if op == "CHECKSIGVERIFY":
                    if not r:
                        raise Fail("CHECKSIGVERIFY")
                else:
                    st.append(1 if r else 0)
            elif op == "CHECKSIGADD":
                if ctx != "tap":
                    raise Fail("CHECKSIGADD outside tapscript")
                k_, n_, s_ = pop(), num(pop()), pop()
                st.append(n_ + 1 if checksig(s_, k_, ctx, log) else n_)
            elif op in ("CHECKMULTISIG", "CHECKMULTISIGVERIFY"):
                if ctx == "tap":
                    raise Fail("CHECKMULTISIG in tapscript")
                nk = num(pop())
                keys = [pop() for _ in range(nk)][::-1]       # script order
                ns = num(pop())
                sigs = [pop() for _ in range(ns)][::-1]       # witness order (first pushed first)
                dummy = pop()
                if not (isinstance(dummy, int) and dummy == 0):
                    raise Fail("NULLDUMMY")
                ik = 0
                good = True
                tmp = []
                for s_ in sigs:
                    matched = False
                    while ik < len(keys) and not matched:
                        matched = checksig(s_, keys[ik], ctx, tmp, in_multisig=True)
                        ik += 1
                    if not matched:
                        good = False
                        break
                if good:
                    log.extend(tmp)
                elif getattr(tx, "nullfail", False) and any(not (isinstance(x, int) and x == 0) for x in sigs):
                    raise Fail("NULLFAIL (BIP-146): a failing CHECKMULTISIG with a non-empty signature")
                if op == "CHECKMULTISIGVERIFY":
                    if not good:
                        raise Fail("CHECKMULTISIGVERIFY")
                else:
                    st.append(1 if good else 0)
            elif op == "CLTV":
                if not st:
                    raise Fail("stack underflow")
                n_ = num(st[-1])
                if not cltv_ok(n_, tx):
                    raise Fail("CLTV")
                log.append(("after", n_))
            elif op == "CSV":
                if not st:
                    raise Fail("stack underflow")
                n_ = num(st[-1])
                if not csv_ok(n_, tx):
                    raise Fail("CSV")
                log.append(("older", n_))
            else:
                raise Fail("unknown opcode %s" % op)
        if cond:
            raise Fail("unbalanced IF")
        if want_stack:
            if alt:
                raise Fail("alt stack not empty")
            return st, log, ""
        if not st or not truth(st[-1]):
            return False, log, "final stack false or empty"
        if ctx in ("segwitv0", "tap") and len(st) != 1:
            return False, log, "CLEANSTACK"
        return True, log, ""
    except Fail as e:
        return (None if want_stack else False), log, str(e)


# ---------------------------------------------------------------------------------------------- witnesses

def _atoms(n, template, ctx, kids):
    """instantiate one witness template (list of atoms) -> list of alternative stacks"""
    kk = keykind(ctx)
    alts = [[]]
    for a in template:
        if a == "0":
            opts = [[0]]
        elif a == "1":
            opts = [[1]]
        elif a == "zeros32":
            opts = [[ZEROS32]]
        elif a[0] == "sig":
            opts = [[sig(n.data, kk)]]
        elif a[0] == "key":
            opts = [[key(n.data, kk)]]
        elif a[0] == "pre":
            opts = [[pre(n.data)]]
        elif a[0] in ("S", "D"):
            opts = kids[a[1]][0 if a[0] == "S" else 1]
        else:
            raise ValueError(a)
        alts = [x + y for x in alts for y in opts]
    return alts


def _expand(n, t, ctx, kids):
    if t == SAT.IMPOSSIBLE:
        return []
    if isinstance(t, tuple) and t[0] == "alt":
        return _expand(n, t[1], ctx, kids) + _expand(n, t[2], ctx, kids)
    return _atoms(n, t, ctx, kids)


def witnesses(n, ctx, cap=12):
    """-> (satisfactions, dissatisfactions): lists of stacks (bottom -> top), canonical per the specification"""
    kk = keykind(ctx)
    kids = [witnesses(k, ctx, cap) for k in n.kids]
    v = n.v
    if v == "Thresh":
        k = n.data
        sats, dis = [], []
        nn = len(kids)
        for choice in itertools.product([0, 1], repeat=nn):
            cnt = sum(1 for c in choice if c == 0)
            parts = [kids[i][c] for i, c in enumerate(choice)]
            combos = [[]]
            for p in reversed(parts):          # first child on top -> last in the list
                combos = [x + y for x in combos for y in p][:cap * 4]
            if cnt == k:
                sats += combos
            elif cnt == 0:
                dis += combos
        return sats[:cap], dis[:cap]
    if v in ("Multi", "SortedMulti"):
        k, keys = n.data
        ks = sorted(keys) if v == "SortedMulti" else keys
        sats = [[0] + [sig(x, kk) for x in sub] for sub in itertools.combinations(ks, k)]
        return sats[:cap], [[0] * (k + 1)]
    if v in ("MultiA", "SortedMultiA"):
        k, keys = n.data
        ks = sorted(keys) if v == "SortedMultiA" else keys
        sats = []
        for sub in itertools.combinations(range(len(ks)), k):
            sats.append([sig(ks[i], kk) if i in sub else 0 for i in reversed(range(len(ks)))])
        return sats[:cap], [[0] * len(ks)]
    if v in ("After", "Older", "True"):
        return [[]], []
    sat_t, dis_t = SAT.TEMPLATES[v]
    return _expand(n, sat_t, ctx, kids)[:cap], _expand(n, dis_t, ctx, kids)[:cap]


def locks(n):
    out = []
    if n.v in ("After", "Older"):
        out.append((n.v, n.data))
    for k in n.kids:
        out += locks(k)
    return out


def selftest():
    tx = Tx(lock_time=100, sequence=10)
    for text, ctx in [("and_v(v:pk(A),pk(B))", "segwitv0"), ("or_d(pk(A),and_v(v:pkh(B),older(7)))", "segwitv0"),
                      ("thresh(2,pk(A),s:pk(B),sln:older(5))", "segwitv0"), ("multi(2,A,B,C)", "segwitv0"),
                      ("multi_a(2,A,B,C)", "tap"), ("andor(pk(A),sha256(H),pkh(C))", "segwitv0"),
                      ("or_i(and_v(v:after(50),pk(A)),pk(B))", "segwitv0"), ("j:and_v(v:pk(A),pk(B))", "segwitv0"),
                      ("t:or_c(pk(A),v:pk(B))", "segwitv0"), ("or_b(pk(A),a:pk(B))", "segwitv0"),
                      ("and_b(pk(A),s:pk(B))", "segwitv0"), ("and_b(pk(A),sdv:older(3))", "segwitv0")]:
        ast = parse(text)
        sc = script(ast, ctx)
        sats, dis = witnesses(ast, ctx)
        assert sats, text
        for w in sats:
            ok_, log, why = execute(sc, w, tx, ctx)
            assert ok_, (text, w, why)
        for w in dis:
            ok_, log, why = execute(sc, w, tx, ctx)
            assert not ok_, (text, w)
    return True


if __name__ == "__main__":
    print(selftest())
