//! THIR (typed, desugared syntax tree) → JSON.
//!
//! Transparent wrappers (`Scope`, `Use`, `ValueTypeAscription`, …) are elided
//! so that the Python side sees the semantic tree only.

use rustc_hir::def_id::{DefId, LocalDefId};
use rustc_middle::thir::{self, ExprId, ExprKind, PatKind, StmtKind, Thir};
use rustc_middle::ty::{self, GenericArgsRef, TyCtxt};

use crate::json::J;
use crate::{obj, Ctx};

pub fn dump_body<'tcx>(cx: &mut Ctx<'tcx>, owner: LocalDefId) -> J {
    let tcx = cx.tcx;
    let Ok((steal, root)) = tcx.thir_body(owner) else {
        return J::Null;
    };
    let thir = steal.borrow();
    let mut d = Dumper { cx, thir: &thir, owner };
    let params: Vec<J> = thir
        .params
        .iter()
        .map(|p| {
            let pat = p.pat.as_ref().map(|p| d.pat(p));
            obj! {
                "pat": J::opt(pat),
                "ty": d.cx.ty(p.ty),
                "self": J::Bool(p.self_kind.is_some()),
            }
        })
        .collect();
    let body = d.expr(root);
    obj! { "params": J::Arr(params), "body": body }
}

struct Dumper<'a, 'tcx> {
    cx: &'a mut Ctx<'tcx>,
    thir: &'a Thir<'tcx>,
    owner: LocalDefId,
}

pub fn callee_facts<'tcx>(
    cx: &mut Ctx<'tcx>,
    owner: DefId,
    def_id: DefId,
    args: GenericArgsRef<'tcx>,
) -> J {
    let tcx = cx.tcx;
    let mut o: Vec<(&'static str, J)> = Vec::new();
    o.push(("def", J::s(cx.path(def_id))));
    let a: Vec<J> = args
        .iter()
        .filter_map(|g| g.as_type().map(|t| J::s(crate::ty_str(tcx, t))))
        .collect();
    o.push(("targs", J::Arr(a)));
    let ca: Vec<J> = args
        .iter()
        .filter_map(|g| g.as_const().map(|c| J::s(format!("{}", c))))
        .collect();
    if !ca.is_empty() {
        o.push(("cargs", J::Arr(ca)));
    }
    if let Some(assoc) = tcx.opt_associated_item(def_id) {
        o.push(("name", J::s(assoc.name().to_string())));
        let cont = assoc.container_id(tcx);
        o.push(("container", J::s(cx.path(cont))));
        if tcx.is_trait(cont) {
            o.push(("trait", J::s(cx.path(cont))));
            // Try to resolve to the concrete impl method.
            let env = ty::TypingEnv::post_analysis(tcx, owner);
            if let Ok(Some(inst)) = ty::Instance::try_resolve(tcx, env, def_id, args) {
                let rd = inst.def_id();
                if rd != def_id {
                    o.push(("resolved", J::s(cx.path(rd))));
                    if let Some(ra) = tcx.opt_associated_item(rd) {
                        o.push(("resolved_container", J::s(cx.path(ra.container_id(tcx)))));
                    }
                }
            }
            // Self type of the call.
            if let Some(t) = args.types().next() {
                o.push(("self_ty", J::s(crate::ty_str(tcx, t))));
            }
        } else {
            // inherent impl: record self type
            let st = tcx.type_of(cont).instantiate_identity().skip_norm_wip();
            o.push(("self_ty", J::s(crate::ty_str(tcx, st))));
        }
    } else if tcx.def_path(def_id).data.is_empty() {
    } else {
        o.push(("name", J::s(tcx.item_name(def_id).to_string())));
    }
    J::Obj(o)
}

impl<'a, 'tcx> Dumper<'a, 'tcx> {
    fn tcx(&self) -> TyCtxt<'tcx> {
        self.cx.tcx
    }

    fn var(&self, id: thir::LocalVarId) -> (J, J) {
        let name = self.tcx().hir_name(id.0).to_string();
        (J::u(id.0.local_id.as_usize()), J::s(name))
    }

    fn exprs(&mut self, ids: &[ExprId]) -> J {
        J::Arr(ids.iter().map(|e| self.expr(*e)).collect())
    }

    fn block(&mut self, b: thir::BlockId) -> J {
        let blk = &self.thir[b];
        let mut stmts = Vec::new();
        for s in blk.stmts.iter() {
            match &self.thir[*s].kind {
                StmtKind::Expr { expr, .. } => {
                    let e = self.expr(*expr);
                    stmts.push(obj! { "s": J::s("expr"), "e": e });
                }
                StmtKind::Let { pattern, initializer, else_block, span, .. } => {
                    let p = self.pat(pattern);
                    let i = initializer.map(|e| self.expr(e));
                    let eb = else_block.map(|b| self.block(b));
                    stmts.push(obj! {
                        "s": J::s("let"),
                        "pat": p,
                        "init": J::opt(i),
                        "else": J::opt(eb),
                        "sp": self.cx.span(*span),
                    });
                }
            }
        }
        let e = blk.expr.map(|e| self.expr(e));
        obj! { "stmts": J::Arr(stmts), "expr": J::opt(e) }
    }

    fn expr(&mut self, id: ExprId) -> J {
        let e = &self.thir[id];
        // transparent wrappers
        match &e.kind {
            ExprKind::Scope { value, .. } => return self.expr(*value),
            ExprKind::Use { source }
            | ExprKind::ValueTypeAscription { source, .. }
            | ExprKind::PlaceTypeAscription { source, .. } => return self.expr(*source),
            _ => {}
        }
        let ty = self.cx.ty(e.ty);
        let sp = self.cx.span(e.span);
        let mut o: Vec<(&'static str, J)> = Vec::new();
        macro_rules! k {
            ($name:literal) => {
                o.push(("k", J::s($name)))
            };
        }
        match &e.kind {
            ExprKind::Scope { .. }
            | ExprKind::Use { .. }
            | ExprKind::ValueTypeAscription { .. }
            | ExprKind::PlaceTypeAscription { .. } => unreachable!(),
            ExprKind::If { cond, then, else_opt, .. } => {
                k!("if");
                o.push(("cond", self.expr(*cond)));
                o.push(("then", self.expr(*then)));
                let el = else_opt.map(|e| self.expr(e));
                o.push(("else", J::opt(el)));
            }
            ExprKind::Call { fun, args, ty: fty, from_hir_call, .. } => {
                k!("call");
                let owner = self.owner.to_def_id();
                match fty.kind() {
                    ty::FnDef(def_id, gargs) => {
                        o.push(("callee", crate::thirdump::callee_facts(self.cx, owner, *def_id, gargs)));
                    }
                    _ => {
                        o.push(("fun", self.expr(*fun)));
                    }
                }
                o.push(("args", self.exprs(args)));
                o.push(("hir_call", J::Bool(*from_hir_call)));
            }
            ExprKind::ByUse { expr, .. } => {
                return self.expr(*expr);
            }
            ExprKind::Deref { arg } => {
                k!("deref");
                o.push(("e", self.expr(*arg)));
            }
            ExprKind::Binary { op, lhs, rhs } => {
                k!("bin");
                o.push(("op", J::s(format!("{:?}", op))));
                o.push(("l", self.expr(*lhs)));
                o.push(("r", self.expr(*rhs)));
            }
            ExprKind::LogicalOp { op, lhs, rhs } => {
                k!("logic");
                o.push(("op", J::s(format!("{:?}", op))));
                o.push(("l", self.expr(*lhs)));
                o.push(("r", self.expr(*rhs)));
            }
            ExprKind::Unary { op, arg } => {
                k!("un");
                o.push(("op", J::s(format!("{:?}", op))));
                o.push(("e", self.expr(*arg)));
            }
            ExprKind::Cast { source } => {
                k!("cast");
                o.push(("e", self.expr(*source)));
            }
            ExprKind::NeverToAny { source } => {
                k!("never_to_any");
                o.push(("e", self.expr(*source)));
            }
            ExprKind::PointerCoercion { cast, source, .. } => {
                k!("coerce");
                o.push(("cast", J::s(format!("{:?}", cast))));
                o.push(("e", self.expr(*source)));
            }
            ExprKind::Loop { body } => {
                k!("loop");
                o.push(("body", self.expr(*body)));
            }
            ExprKind::LoopMatch { .. } => {
                k!("loop_match");
            }
            ExprKind::Let { expr, pat } => {
                k!("let");
                o.push(("e", self.expr(*expr)));
                o.push(("pat", self.pat(pat)));
            }
            ExprKind::Match { scrutinee, arms, match_source } => {
                k!("match");
                o.push(("src", J::s(format!("{:?}", match_source))));
                o.push(("scrut", self.expr(*scrutinee)));
                let mut av = Vec::new();
                for a in arms.iter() {
                    let arm = &self.thir[*a];
                    let p = self.pat(&arm.pattern);
                    let g = arm.guard.map(|g| self.expr(g));
                    let b = self.expr(arm.body);
                    av.push(obj! {
                        "pat": p,
                        "guard": J::opt(g),
                        "body": b,
                        "sp": self.cx.span(arm.span),
                    });
                }
                o.push(("arms", J::Arr(av)));
            }
            ExprKind::Block { block } => {
                k!("block");
                o.push(("b", self.block(*block)));
            }
            ExprKind::Assign { lhs, rhs } => {
                k!("assign");
                o.push(("l", self.expr(*lhs)));
                o.push(("r", self.expr(*rhs)));
            }
            ExprKind::AssignOp { op, lhs, rhs } => {
                k!("assign_op");
                o.push(("op", J::s(format!("{:?}", op))));
                o.push(("l", self.expr(*lhs)));
                o.push(("r", self.expr(*rhs)));
            }
            ExprKind::Field { lhs, variant_index, name } => {
                k!("field");
                let lty = self.thir[*lhs].ty;
                let mut fname = format!("{}", name.as_usize());
                if let ty::Adt(adt, _) = lty.kind() {
                    let v = adt.variant(*variant_index);
                    fname = v.fields[*name].name.to_string();
                }
                o.push(("name", J::s(fname)));
                o.push(("idx", J::u(name.as_usize())));
                o.push(("e", self.expr(*lhs)));
            }
            ExprKind::Index { lhs, index } => {
                k!("index");
                o.push(("e", self.expr(*lhs)));
                o.push(("i", self.expr(*index)));
            }
            ExprKind::VarRef { id } => {
                k!("var");
                let (i, n) = self.var(*id);
                o.push(("id", i));
                o.push(("name", n));
            }
            ExprKind::UpvarRef { var_hir_id, .. } => {
                k!("upvar");
                let (i, n) = self.var(*var_hir_id);
                o.push(("id", i));
                o.push(("name", n));
            }
            ExprKind::Borrow { borrow_kind, arg } => {
                k!("borrow");
                o.push(("mut", J::Bool(matches!(borrow_kind, rustc_middle::mir::BorrowKind::Mut { .. }))));
                o.push(("e", self.expr(*arg)));
            }
            ExprKind::RawBorrow { arg, .. } => {
                k!("raw_borrow");
                o.push(("e", self.expr(*arg)));
            }
            ExprKind::Break { value, .. } => {
                k!("break");
                let v = value.map(|v| self.expr(v));
                o.push(("e", J::opt(v)));
            }
            ExprKind::Continue { .. } => {
                k!("continue");
            }
            ExprKind::ConstContinue { .. } => {
                k!("const_continue");
            }
            ExprKind::Return { value } => {
                k!("return");
                let v = value.map(|v| self.expr(v));
                o.push(("e", J::opt(v)));
            }
            ExprKind::Become { value } => {
                k!("become");
                o.push(("e", self.expr(*value)));
            }
            ExprKind::ConstBlock { did, .. } => {
                k!("const_block");
                o.push(("def", J::s(self.cx.path(*did))));
            }
            ExprKind::Repeat { value, count } => {
                k!("repeat");
                o.push(("e", self.expr(*value)));
                o.push(("count", J::s(format!("{}", count))));
            }
            ExprKind::Array { fields } => {
                k!("array");
                o.push(("es", self.exprs(fields)));
            }
            ExprKind::Tuple { fields } => {
                k!("tuple");
                o.push(("es", self.exprs(fields)));
            }
            ExprKind::Adt(adt) => {
                k!("adt");
                let v = adt.adt_def.variant(adt.variant_index);
                o.push(("adt", J::s(self.cx.path(adt.adt_def.did()))));
                o.push(("variant", J::s(v.name.to_string())));
                o.push(("vidx", J::u(adt.variant_index.as_usize())));
                let mut fs = Vec::new();
                for f in adt.fields.iter() {
                    let n = v.fields[f.name].name.to_string();
                    let e = self.expr(f.expr);
                    fs.push(obj! { "name": J::s(n), "idx": J::u(f.name.as_usize()), "e": e });
                }
                o.push(("fields", J::Arr(fs)));
                match &adt.base {
                    thir::AdtExprBase::Base(fru) => {
                        o.push(("base", self.expr(fru.base)));
                    }
                    thir::AdtExprBase::DefaultFields(_) => {
                        o.push(("base", J::s("default_fields")));
                    }
                    thir::AdtExprBase::None => {}
                }
            }
            ExprKind::PlaceUnwrapUnsafeBinder { source }
            | ExprKind::ValueUnwrapUnsafeBinder { source }
            | ExprKind::WrapUnsafeBinder { source } => {
                k!("unsafe_binder");
                o.push(("e", self.expr(*source)));
            }
            ExprKind::Closure(c) => {
                k!("closure");
                o.push(("def", J::s(self.cx.path(c.closure_id.to_def_id()))));
                o.push(("upvars", self.exprs(&c.upvars)));
            }
            ExprKind::Literal { lit, neg } => {
                k!("lit");
                o.push(("neg", J::Bool(*neg)));
                use rustc_ast::LitKind;
                match &lit.node {
                    LitKind::Int(v, _) => o.push(("int", J::Int(v.get() as i128))),
                    LitKind::Bool(b) => o.push(("bool", J::Bool(*b))),
                    LitKind::Str(s, _) => o.push(("str", J::s(s.to_string()))),
                    LitKind::Char(c) => o.push(("char", J::s(c.to_string()))),
                    LitKind::Byte(b) => o.push(("int", J::Int(*b as i128))),
                    LitKind::ByteStr(bs, _) | LitKind::CStr(bs, _) => {
                        let v: Vec<J> = bs.as_byte_str().iter().map(|b| J::Int(*b as i128)).collect();
                        o.push(("bytes", J::Arr(v)));
                    }
                    other => o.push(("other", J::s(format!("{:?}", other)))),
                }
            }
            ExprKind::NonHirLiteral { lit, .. } => {
                k!("lit");
                o.push(("neg", J::Bool(false)));
                o.push(("int", J::Int(lit.to_bits_unchecked() as i128)));
            }
            ExprKind::ZstLiteral { .. } => {
                k!("zst");
                if let ty::FnDef(def_id, gargs) = e.ty.kind() {
                    let owner = self.owner.to_def_id();
                    o.push(("callee", callee_facts(self.cx, owner, *def_id, gargs)));
                }
            }
            ExprKind::NamedConst { def_id, args, .. } => {
                k!("const");
                let owner = self.owner.to_def_id();
                o.push(("callee", callee_facts(self.cx, owner, *def_id, args)));
                // value of non-generic constants of other crates (e.g. opcodes), as rustc evaluates them
                if !def_id.is_local() && args.is_empty() {
                    if let Some(v) = crate::eval_const_cached(self.cx, *def_id) {
                        o.push(("value", J::s(v)));
                    }
                }
            }
            ExprKind::ConstParam { param, def_id } => {
                k!("const_param");
                o.push(("def", J::s(self.cx.path(*def_id))));
                o.push(("name", J::s(param.name.to_string())));
            }
            ExprKind::StaticRef { def_id, .. } => {
                k!("static");
                o.push(("def", J::s(self.cx.path(*def_id))));
                if let Some(v) = crate::eval_static_pub(self.cx.tcx, *def_id) {
                    o.push(("value", J::s(v)));
                }
                let sty = self.cx.tcx.type_of(*def_id).instantiate_identity().skip_norm_wip();
                o.push(("static_ty", J::s(crate::ty_str(self.cx.tcx, sty))));
            }
            ExprKind::InlineAsm(_) => {
                k!("asm");
            }
            ExprKind::ThreadLocalRef(d) => {
                k!("tls");
                o.push(("def", J::s(self.cx.path(*d))));
            }
            ExprKind::Yield { value } => {
                k!("yield");
                o.push(("e", self.expr(*value)));
            }
        }
        o.push(("ty", ty));
        o.push(("sp", sp));
        J::Obj(o)
    }

    fn pat(&mut self, p: &thir::Pat<'tcx>) -> J {
        let mut o: Vec<(&'static str, J)> = Vec::new();
        macro_rules! k {
            ($name:literal) => {
                o.push(("k", J::s($name)))
            };
        }
        match &p.kind {
            PatKind::Missing => k!("missing"),
            PatKind::Wild => k!("wild"),
            PatKind::Binding { name, mode, var, subpattern, .. } => {
                k!("bind");
                o.push(("name", J::s(name.to_string())));
                o.push(("id", J::u(var.0.local_id.as_usize())));
                o.push(("by_ref", J::Bool(!matches!(mode.0, rustc_hir::ByRef::No))));
                if let Some(sp) = subpattern {
                    o.push(("sub", self.pat(sp)));
                }
            }
            PatKind::Variant { adt_def, variant_index, subpatterns, .. } => {
                k!("variant");
                let v = adt_def.variant(*variant_index);
                o.push(("adt", J::s(self.cx.path(adt_def.did()))));
                o.push(("variant", J::s(v.name.to_string())));
                o.push(("vidx", J::u(variant_index.as_usize())));
                let mut subs = Vec::new();
                for fp in subpatterns {
                    let n = v.fields[fp.field].name.to_string();
                    let sp = self.pat(&fp.pattern);
                    subs.push(obj! { "name": J::s(n), "idx": J::u(fp.field.as_usize()), "pat": sp });
                }
                o.push(("subs", J::Arr(subs)));
            }
            PatKind::Leaf { subpatterns } => {
                k!("leaf");
                let adt = match p.ty.kind() {
                    ty::Adt(a, _) => Some(*a),
                    _ => None,
                };
                if let Some(a) = adt {
                    o.push(("adt", J::s(self.cx.path(a.did()))));
                }
                let mut subs = Vec::new();
                for fp in subpatterns {
                    let n = match adt {
                        Some(a) if a.is_struct() => {
                            a.non_enum_variant().fields[fp.field].name.to_string()
                        }
                        _ => format!("{}", fp.field.as_usize()),
                    };
                    let sp = self.pat(&fp.pattern);
                    subs.push(obj! { "name": J::s(n), "idx": J::u(fp.field.as_usize()), "pat": sp });
                }
                o.push(("subs", J::Arr(subs)));
            }
            PatKind::Deref { subpattern, .. } => {
                k!("deref");
                o.push(("sub", self.pat(subpattern)));
            }
            PatKind::DerefPattern { subpattern, .. } => {
                k!("deref_pattern");
                o.push(("sub", self.pat(subpattern)));
            }
            PatKind::Constant { value } => {
                k!("const");
                let tcx = self.tcx();
                if let Some(si) = value.try_to_leaf() {
                    let bits = si.to_bits_unchecked();
                    let v = if value.ty.is_signed() {
                        let size = si.size();
                        size.sign_extend(bits) as i128
                    } else {
                        bits as i128
                    };
                    o.push(("int", J::Int(v)));
                } else if let Some(bytes) = value.try_to_raw_bytes(tcx) {
                    if value.ty.peel_refs().is_str() {
                        o.push(("str", J::s(String::from_utf8_lossy(bytes).to_string())));
                    } else {
                        let v: Vec<J> = bytes.iter().map(|b| J::Int(*b as i128)).collect();
                        o.push(("bytes", J::Arr(v)));
                    }
                }
                o.push(("text", J::s(ty::print::with_no_trimmed_paths!(format!("{}", value)))));
            }
            PatKind::Range(r) => {
                k!("range");
                o.push(("text", J::s(ty::print::with_no_trimmed_paths!(format!("{}", r)))));
            }
            PatKind::Slice { prefix, slice, suffix } | PatKind::Array { prefix, slice, suffix } => {
                k!("slice");
                let pre: Vec<J> = prefix.iter().map(|p| self.pat(p)).collect();
                let suf: Vec<J> = suffix.iter().map(|p| self.pat(p)).collect();
                let mid = slice.as_ref().map(|p| self.pat(p));
                o.push(("prefix", J::Arr(pre)));
                o.push(("slice", J::opt(mid)));
                o.push(("suffix", J::Arr(suf)));
            }
            PatKind::Or { pats } => {
                k!("or");
                let ps: Vec<J> = pats.iter().map(|p| self.pat(p)).collect();
                o.push(("pats", J::Arr(ps)));
            }
            PatKind::Guard { subpattern, condition } => {
                k!("guard");
                o.push(("sub", self.pat(subpattern)));
                o.push(("cond", self.expr(*condition)));
            }
            PatKind::Never => k!("never"),
            PatKind::Error(_) => k!("error"),
        }
        if let Some(extra) = &p.extra {
            if let Some(d) = extra.expanded_const {
                o.push(("from_const", J::s(self.cx.path(d))));
            }
        }
        o.push(("ty", self.cx.ty(p.ty)));
        J::Obj(o)
    }
}
