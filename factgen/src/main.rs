//! factgen: rustc_private driver that dumps resolved program facts (ADTs,
//! impls, function signatures, typed syntax trees (THIR), MIR control-flow
//! graphs with resolved callees, selected constant values) of the crate
//! under analysis as one JSON file.
//!
//! Invoked through RUSTC_WORKSPACE_WRAPPER: argv[1] is the real rustc path
//! and is dropped. Only the crate named by FACTGEN_CRATE (default
//! `miniscript`) is analysed; its facts go to the file named by FACTGEN_OUT.

#![feature(rustc_private)]
#![feature(box_patterns)]

extern crate rustc_abi;
extern crate rustc_ast;
extern crate rustc_data_structures;
extern crate rustc_driver;
extern crate rustc_hir;
extern crate rustc_index;
extern crate rustc_interface;
extern crate rustc_middle;
extern crate rustc_session;
extern crate rustc_span;

mod json;
mod mirdump;
mod thirdump;

use std::collections::HashMap;

use json::J;
use rustc_driver::{Callbacks, Compilation};
use rustc_hir::def::DefKind;
use rustc_hir::def_id::{DefId, LocalDefId};
use rustc_middle::ty::{self, Ty, TyCtxt};
use rustc_span::Span;

pub struct Ctx<'tcx> {
    pub const_cache: HashMap<DefId, Option<String>>,
    pub tcx: TyCtxt<'tcx>,
    pub types: Vec<String>,
    pub type_ix: HashMap<String, usize>,
}

impl<'tcx> Ctx<'tcx> {
    pub fn ty(&mut self, t: Ty<'tcx>) -> J {
        let s = ty_str(self.tcx, t);
        self.intern(s)
    }

    pub fn intern(&mut self, s: String) -> J {
        if let Some(&i) = self.type_ix.get(&s) {
            return J::u(i);
        }
        let i = self.types.len();
        self.types.push(s.clone());
        self.type_ix.insert(s, i);
        J::u(i)
    }

    pub fn span(&self, sp: Span) -> J {
        J::s(span_str(self.tcx, sp))
    }

    pub fn path(&self, d: DefId) -> String {
        def_path(self.tcx, d)
    }
}

pub fn ty_str<'tcx>(_tcx: TyCtxt<'tcx>, t: Ty<'tcx>) -> String {
    ty::print::with_no_trimmed_paths!(format!("{}", t))
}

pub fn def_path<'tcx>(tcx: TyCtxt<'tcx>, d: DefId) -> String {
    ty::print::with_no_trimmed_paths!(tcx.def_path_str(d))
}

pub fn span_str<'tcx>(tcx: TyCtxt<'tcx>, sp: Span) -> String {
    let sm = tcx.sess.source_map();
    let exp = sp.from_expansion();
    // Use the call-site for macro expansions so that the location points
    // into the crate's source.
    let sp2 = if exp { sp.source_callsite() } else { sp };
    let lo = sm.lookup_char_pos(sp2.lo());
    let name = match &lo.file.name {
        rustc_span::FileName::Real(r) => match r.local_path() {
            Some(p) => p.display().to_string(),
            None => format!("{:?}", r),
        },
        other => format!("{:?}", other),
    };
    format!("{}:{}:{}{}", name, lo.line, lo.col.0 + 1, if exp { "!" } else { "" })
}

struct Cb;

impl Callbacks for Cb {
    fn after_analysis<'tcx>(
        &mut self,
        _compiler: &rustc_interface::interface::Compiler,
        tcx: TyCtxt<'tcx>,
    ) -> Compilation {
        let want = std::env::var("FACTGEN_CRATE").unwrap_or_else(|_| "miniscript".to_string());
        let name = tcx.crate_name(rustc_hir::def_id::LOCAL_CRATE).to_string();
        if name != want {
            return Compilation::Continue;
        }
        let out = match std::env::var("FACTGEN_OUT") {
            Ok(o) => o,
            Err(_) => return Compilation::Continue,
        };
        let facts = collect(tcx);
        let mut s = String::with_capacity(64 << 20);
        facts.write(&mut s);
        std::fs::write(&out, s).expect("factgen: cannot write facts");
        Compilation::Continue
    }
}

fn vis_str<'tcx>(tcx: TyCtxt<'tcx>, d: DefId) -> String {
    match tcx.visibility(d) {
        ty::Visibility::Public => "pub".to_string(),
        ty::Visibility::Restricted(m) => {
            if m.is_crate_root() {
                "crate".to_string()
            } else {
                format!("in:{}", def_path(tcx, m))
            }
        }
    }
}

fn collect<'tcx>(tcx: TyCtxt<'tcx>) -> J {
    let mut cx = Ctx { tcx, types: Vec::new(), type_ix: HashMap::new(), const_cache: HashMap::new() };
    let mut adts = Vec::new();
    let mut impls = Vec::new();
    let mut traits = Vec::new();
    let mut fns = Vec::new();
    let mut consts = Vec::new();

    // ---- items ---------------------------------------------------------
    for id in tcx.hir_crate_items(()).definitions() {
        let did = id.to_def_id();
        match tcx.def_kind(did) {
            DefKind::Struct | DefKind::Enum | DefKind::Union => {
                adts.push(adt_facts(&mut cx, did));
            }
            DefKind::Impl { of_trait } => {
                impls.push(impl_facts(&mut cx, id, of_trait));
            }
            DefKind::Trait => {
                let items: Vec<J> = tcx
                    .associated_items(did)
                    .in_definition_order()
                    .map(|it| {
                        obj! {
                            "name": J::s(it.name().to_string()),
                            "path": J::s(cx.path(it.def_id)),
                            "kind": J::s(format!("{:?}", it.tag())),
                            "has_default": J::Bool(it.defaultness(tcx).has_value()),
                        }
                    })
                    .collect();
                traits.push(obj! {
                    "path": J::s(cx.path(did)),
                    "vis": J::s(vis_str(tcx, did)),
                    "span": cx.span(tcx.def_span(did)),
                    "items": J::Arr(items),
                });
            }
            DefKind::Const { .. } | DefKind::AssocConst { .. } | DefKind::Static { .. } => {
                consts.push(const_facts(&mut cx, id));
            }
            _ => {}
        }
    }

    // ---- bodies --------------------------------------------------------
    let mut bodies = Vec::new();
    for owner in tcx.hir_body_owners() {
        let did = owner.to_def_id();
        let kind = tcx.def_kind(did);
        let is_fn = matches!(kind, DefKind::Fn | DefKind::AssocFn | DefKind::Closure);
        if !is_fn {
            // constants / statics: typed tree only (their values are in `consts`)
            if matches!(kind, DefKind::Const { .. } | DefKind::AssocConst { .. } | DefKind::Static { .. }) {
                let thir = thirdump::dump_body(&mut cx, owner);
                bodies.push(obj! {
                    "path": J::s(cx.path(did)),
                    "span": cx.span(tcx.def_span(did)),
                    "thir": thir,
                    "mir": J::Null,
                });
            }
            continue;
        }
        let mut o: Vec<(&'static str, J)> = Vec::new();
        o.push(("path", J::s(cx.path(did))));
        o.push(("kind", J::s(format!("{:?}", kind))));
        o.push(("span", cx.span(tcx.def_span(did))));
        o.push(("generics", type_param_names(tcx, did)));
        o.push(("const_generics", const_param_names(tcx, did)));
        if matches!(kind, DefKind::Fn | DefKind::AssocFn) {
            o.push(("vis", J::s(vis_str(tcx, did))));
            o.push(("const", J::Bool(tcx.is_const_fn(did))));
            let sig = tcx.fn_sig(did).instantiate_identity().skip_norm_wip().skip_binder();
            let ins: Vec<J> = sig.inputs().iter().map(|t| cx.ty(*t)).collect();
            o.push(("inputs", J::Arr(ins)));
            o.push(("output", cx.ty(sig.output())));
            if let Some(assoc) = tcx.opt_associated_item(did) {
                o.push(("name", J::s(assoc.name().to_string())));
                let cont = assoc.container_id(tcx);
                o.push(("container", J::s(cx.path(cont))));
                if let Some(tr) = assoc.trait_item_def_id() {
                    o.push(("trait_item", J::s(cx.path(tr))));
                }
            } else {
                o.push(("name", J::s(tcx.item_name(did).to_string())));
            }
            let attrs_derived = tcx
                .opt_parent(did)
                .map(|p| tcx.is_automatically_derived(p))
                .unwrap_or(false);
            o.push(("derived", J::Bool(attrs_derived)));
        } else {
            o.push(("parent", J::s(cx.path(tcx.typeck_root_def_id(did)))));
        }
        fns.push(J::Obj(o.clone()));

        let thir = thirdump::dump_body(&mut cx, owner);
        let mir = mirdump::dump_body(&mut cx, owner);
        bodies.push(obj! {
            "path": J::s(cx.path(did)),
            "span": cx.span(tcx.def_span(did)),
            "thir": thir,
            "mir": mir,
        });
    }

    let types = J::Arr(cx.types.iter().map(|s| J::s(s.clone())).collect());
    obj! {
        "crate": J::s(tcx.crate_name(rustc_hir::def_id::LOCAL_CRATE).to_string()),
        "adts": J::Arr(adts),
        "impls": J::Arr(impls),
        "traits": J::Arr(traits),
        "fns": J::Arr(fns),
        "consts": J::Arr(consts),
        "bodies": J::Arr(bodies),
        "types": types,
    }
}

/// names of the type parameters in scope of `did` (parents first), in the order rustc
/// lists the generic arguments of a call to it
fn type_param_names<'tcx>(tcx: TyCtxt<'tcx>, did: DefId) -> J {
    let mut chain = Vec::new();
    let mut cur = Some(did);
    while let Some(d) = cur {
        let g = tcx.generics_of(d);
        chain.push(g);
        cur = g.parent;
    }
    let mut names = Vec::new();
    for g in chain.iter().rev() {
        for p in g.own_params.iter() {
            if matches!(p.kind, ty::GenericParamDefKind::Type { .. }) {
                names.push(J::s(p.name.to_string()));
            }
        }
    }
    J::Arr(names)
}

fn const_param_names<'tcx>(tcx: TyCtxt<'tcx>, did: DefId) -> J {
    let mut chain = Vec::new();
    let mut cur = Some(did);
    while let Some(d) = cur {
        let g = tcx.generics_of(d);
        chain.push(g);
        cur = g.parent;
    }
    let mut names = Vec::new();
    for g in chain.iter().rev() {
        for p in g.own_params.iter() {
            if matches!(p.kind, ty::GenericParamDefKind::Const { .. }) {
                names.push(J::s(p.name.to_string()));
            }
        }
    }
    J::Arr(names)
}

fn adt_facts<'tcx>(cx: &mut Ctx<'tcx>, did: DefId) -> J {
    let tcx = cx.tcx;
    let adt = tcx.adt_def(did);
    let generics = tcx.generics_of(did);
    let gparams: Vec<J> =
        generics.own_params.iter().map(|p| J::s(p.name.to_string())).collect();
    let mut variants = Vec::new();
    for (vi, v) in adt.variants().iter_enumerated() {
        let mut fields = Vec::new();
        for f in v.fields.iter() {
            let fty = tcx.type_of(f.did).instantiate_identity().skip_norm_wip();
            fields.push(obj! {
                "name": J::s(f.name.to_string()),
                "ty": J::s(ty_str(tcx, fty)),
                "vis": J::s(match f.vis {
                    ty::Visibility::Public => "pub".to_string(),
                    ty::Visibility::Restricted(m) => {
                        if m.is_crate_root() { "crate".to_string() } else { format!("in:{}", def_path(tcx, m)) }
                    }
                }),
            });
        }
        variants.push(obj! {
            "name": J::s(v.name.to_string()),
            "index": J::u(vi.as_usize()),
            "ctor": J::s(format!("{:?}", v.ctor_kind())),
            "fields": J::Arr(fields),
        });
    }
    obj! {
        "path": J::s(cx.path(did)),
        "kind": J::s(if adt.is_enum() { "enum" } else if adt.is_union() { "union" } else { "struct" }),
        "vis": J::s(vis_str(tcx, did)),
        "span": cx.span(tcx.def_span(did)),
        "generics": J::Arr(gparams),
        "variants": J::Arr(variants),
    }
}

fn impl_facts<'tcx>(cx: &mut Ctx<'tcx>, id: LocalDefId, of_trait: bool) -> J {
    let tcx = cx.tcx;
    let did = id.to_def_id();
    let self_ty = tcx.type_of(did).instantiate_identity().skip_norm_wip();
    let self_adt = match self_ty.kind() {
        ty::Adt(a, _) => Some(cx.path(a.did())),
        ty::Ref(_, inner, _) => match inner.kind() {
            ty::Adt(a, _) => Some(cx.path(a.did())),
            _ => None,
        },
        _ => None,
    };
    let (trait_path, trait_str) = if of_trait {
        let tr = tcx.impl_trait_ref(did).instantiate_identity().skip_norm_wip();
        (
            Some(cx.path(tr.def_id)),
            Some(ty::print::with_no_trimmed_paths!(format!("{}", tr))),
        )
    } else {
        (None, None)
    };
    let items: Vec<J> = tcx
        .associated_items(did)
        .in_definition_order()
        .map(|it| {
            obj! {
                "name": J::s(it.name().to_string()),
                "path": J::s(cx.path(it.def_id)),
                "kind": J::s(format!("{:?}", it.tag())),
            }
        })
        .collect();
    obj! {
        "path": J::s(cx.path(did)),
        "self_ty": J::s(ty_str(tcx, self_ty)),
        "self_adt": J::opt(self_adt.map(J::s)),
        "trait": J::opt(trait_path.map(J::s)),
        "trait_str": J::opt(trait_str.map(J::s)),
        "derived": J::Bool(tcx.is_automatically_derived(did)),
        "span": cx.span(tcx.def_span(did)),
        "items": J::Arr(items),
    }
}

fn const_facts<'tcx>(cx: &mut Ctx<'tcx>, id: LocalDefId) -> J {
    let tcx = cx.tcx;
    let did = id.to_def_id();
    let kind = tcx.def_kind(did);
    let ty = tcx.type_of(did).instantiate_identity().skip_norm_wip();
    let mut value: Option<String> = None;
    // Only evaluate when no generic parameters are in scope.
    let generics = tcx.generics_of(did);
    let no_generics = generics.own_params.is_empty() && generics.parent_count == 0;
    let is_const = matches!(kind, DefKind::Const { .. } | DefKind::AssocConst { .. });
    let has_body = match kind {
        DefKind::AssocConst { .. } => tcx
            .opt_associated_item(did)
            .map(|a| a.defaultness(tcx).has_value())
            .unwrap_or(false),
        _ => true,
    };
    if is_const && no_generics && has_body {
        value = eval_const(tcx, did);
    } else if matches!(kind, DefKind::Static { .. }) && no_generics {
        value = eval_static(tcx, did);
    }
    let container = tcx.opt_associated_item(did).map(|a| cx.path(a.container_id(tcx)));
    obj! {
        "path": J::s(cx.path(did)),
        "kind": J::s(format!("{:?}", kind)),
        "ty": J::s(ty_str(tcx, ty)),
        "span": cx.span(tcx.def_span(did)),
        "container": J::opt(container.map(J::s)),
        "value": J::opt(value.map(J::s)),
    }
}

fn eval_const<'tcx>(tcx: TyCtxt<'tcx>, did: DefId) -> Option<String> {
    let ty = tcx.type_of(did).instantiate_identity().skip_norm_wip();
    let typing_env = ty::TypingEnv::fully_monomorphized();
    let cid = rustc_middle::mir::interpret::GlobalId {
        instance: ty::Instance::mono(tcx, did),
        promoted: None,
    };
    // Prefer a valtree (structural value), fall back to the raw allocation
    // bytes for types that are not valtree-compatible (arrays of u64 are).
    match tcx.const_eval_global_id_for_typeck(typing_env, cid, rustc_span::DUMMY_SP) {
        Ok(Ok(vt)) => {
            let c = ty::Const::new_value(tcx, vt, ty);
            Some(ty::print::with_no_trimmed_paths!(format!("{}", c)))
        }
        _ => match tcx.const_eval_global_id(typing_env, cid, rustc_span::DUMMY_SP) {
            Ok(cv) => {
                let c = rustc_middle::mir::Const::Val(cv, ty);
                Some(ty::print::with_no_trimmed_paths!(format!("{}", c)))
            }
            Err(_) => None,
        },
    }
}

pub fn eval_const_cached<'tcx>(cx: &mut Ctx<'tcx>, did: DefId) -> Option<String> {
    if let Some(v) = cx.const_cache.get(&did) {
        return v.clone();
    }
    let generics = cx.tcx.generics_of(did);
    let v = if generics.own_params.is_empty() && generics.parent_count == 0 {
        eval_const(cx.tcx, did)
    } else {
        None
    };
    cx.const_cache.insert(did, v.clone());
    v
}

pub fn eval_static_pub<'tcx>(tcx: TyCtxt<'tcx>, did: DefId) -> Option<String> {
    eval_static(tcx, did)
}

fn eval_static<'tcx>(tcx: TyCtxt<'tcx>, did: DefId) -> Option<String> {
    let alloc = tcx.eval_static_initializer(did).ok()?;
    let a = alloc.inner();
    if a.provenance().ptrs().is_empty() {
        let bytes = a.inspect_with_uninit_and_ptr_outside_interpreter(0..a.len());
        let hex: String = bytes.iter().map(|b| format!("{:02x}", b)).collect();
        Some(format!("bytes:{}", hex))
    } else {
        None
    }
}

fn main() {
    let mut args: Vec<String> = std::env::args().collect();
    // RUSTC_WORKSPACE_WRAPPER passes the real rustc as argv[1].
    if args.len() > 1 && (args[1].ends_with("rustc") || args[1].contains("/rustc")) {
        args.remove(1);
    }
    let want = std::env::var("FACTGEN_CRATE").unwrap_or_else(|_| "miniscript".to_string());
    let mut is_target = false;
    let mut it = args.iter();
    while let Some(a) = it.next() {
        if a == "--crate-name" {
            if let Some(n) = it.next() {
                is_target = *n == want;
            }
        }
    }
    if is_target && std::env::var("FACTGEN_OUT").is_ok() {
        args.push("-Zno-steal-thir".to_string());
        args.push("-Zmir-opt-level=0".to_string());
    }
    let mut cb = Cb;
    rustc_driver::run_compiler(&args, &mut cb);
}
