//! Minimal JSON value + writer (no external crates available offline for a
//! rustc_private driver, so this is hand-rolled).

use std::fmt::Write;

#[derive(Clone, Debug)]
pub enum J {
    Null,
    Bool(bool),
    Int(i128),
    Str(String),
    Arr(Vec<J>),
    Obj(Vec<(&'static str, J)>),
}

impl J {
    pub fn s<S: Into<String>>(s: S) -> J { J::Str(s.into()) }
    pub fn i<I: Into<i128>>(i: I) -> J { J::Int(i.into()) }
    pub fn u(i: usize) -> J { J::Int(i as i128) }
    pub fn opt(o: Option<J>) -> J { o.unwrap_or(J::Null) }

    pub fn write(&self, out: &mut String) {
        match self {
            J::Null => out.push_str("null"),
            J::Bool(b) => out.push_str(if *b { "true" } else { "false" }),
            J::Int(i) => {
                // Python's json handles arbitrary precision ints.
                let _ = write!(out, "{}", i);
            }
            J::Str(s) => write_str(s, out),
            J::Arr(a) => {
                out.push('[');
                for (n, v) in a.iter().enumerate() {
                    if n > 0 {
                        out.push(',');
                    }
                    v.write(out);
                }
                out.push(']');
            }
            J::Obj(o) => {
                out.push('{');
                for (n, (k, v)) in o.iter().enumerate() {
                    if n > 0 {
                        out.push(',');
                    }
                    write_str(k, out);
                    out.push(':');
                    v.write(out);
                }
                out.push('}');
            }
        }
    }
}

fn write_str(s: &str, out: &mut String) {
    out.push('"');
    for c in s.chars() {
        match c {
            '"' => out.push_str("\\\""),
            '\\' => out.push_str("\\\\"),
            '\n' => out.push_str("\\n"),
            '\r' => out.push_str("\\r"),
            '\t' => out.push_str("\\t"),
            c if (c as u32) < 0x20 => {
                let _ = write!(out, "\\u{:04x}", c as u32);
            }
            c => out.push(c),
        }
    }
    out.push('"');
}

#[macro_export]
macro_rules! obj {
    ($($k:literal : $v:expr),* $(,)?) => {
        $crate::json::J::Obj(vec![$(($k, $v)),*])
    };
}
