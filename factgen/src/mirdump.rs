//! MIR → JSON: basic blocks, statements (assignments only), terminators with
//! resolved callees, assert kinds, switch targets, local declarations.

use rustc_hir::def_id::LocalDefId;
use rustc_middle::mir::{
    self, AggregateKind, Operand, Place, Rvalue, StatementKind, TerminatorKind,
};
use rustc_middle::ty::{self};

use crate::json::J;
use crate::{obj, Ctx};

pub fn dump_body<'tcx>(cx: &mut Ctx<'tcx>, owner: LocalDefId) -> J {
    let tcx = cx.tcx;
    let did = owner.to_def_id();
    if !tcx.is_mir_available(did) {
        return J::Null;
    }
    let body = tcx.optimized_mir(did);
    let mut locals = Vec::new();
    for (l, decl) in body.local_decls.iter_enumerated() {
        locals.push(obj! {
            "i": J::u(l.as_usize()),
            "ty": cx.ty(decl.ty),
        });
    }
    let mut names = Vec::new();
    for vdi in body.var_debug_info.iter() {
        if let mir::VarDebugInfoContents::Place(p) = &vdi.value {
            names.push(obj! {
                "name": J::s(vdi.name.to_string()),
                "place": place(cx, body, p),
            });
        }
    }
    let mut blocks = Vec::new();
    for (bb, data) in body.basic_blocks.iter_enumerated() {
        let mut stmts = Vec::new();
        for st in data.statements.iter() {
            match &st.kind {
                StatementKind::Assign(box (p, rv)) => {
                    let mut o = rvalue(cx, body, rv);
                    o.insert(0, ("dst", place(cx, body, p)));
                    o.push(("sp", cx.span(st.source_info.span)));
                    stmts.push(J::Obj(o));
                }
                StatementKind::SetDiscriminant { place: p, variant_index } => {
                    stmts.push(obj! {
                        "dst": place(cx, body, p),
                        "rv": J::s("set_discr"),
                        "vidx": J::u(variant_index.as_usize()),
                        "sp": cx.span(st.source_info.span),
                    });
                }
                _ => {}
            }
        }
        let term = data.terminator();
        let t = terminator(cx, body, owner, term);
        blocks.push(obj! {
            "i": J::u(bb.as_usize()),
            "cleanup": J::Bool(data.is_cleanup),
            "stmts": J::Arr(stmts),
            "term": t,
        });
    }
    obj! {
        "arg_count": J::u(body.arg_count),
        "locals": J::Arr(locals),
        "names": J::Arr(names),
        "blocks": J::Arr(blocks),
    }
}

fn place<'tcx>(cx: &mut Ctx<'tcx>, body: &mir::Body<'tcx>, p: &Place<'tcx>) -> J {
    let tcx = cx.tcx;
    let mut proj = Vec::new();
    let mut ty = mir::PlaceTy::from_ty(body.local_decls[p.local].ty);
    for elem in p.projection.iter() {
        use mir::ProjectionElem as PE;
        let s = match elem {
            PE::Deref => "*".to_string(),
            PE::Field(f, _) => {
                let mut n = format!(".{}", f.as_usize());
                if let ty::Adt(adt, _) = ty.ty.kind() {
                    let v = match ty.variant_index {
                        Some(vi) => Some(adt.variant(vi)),
                        None if !adt.is_enum() => Some(adt.non_enum_variant()),
                        None => None,
                    };
                    if let Some(v) = v {
                        if f.as_usize() < v.fields.len() {
                            n = format!(".{}", v.fields[f].name);
                        }
                    }
                }
                n
            }
            PE::Index(l) => format!("[_{}]", l.as_usize()),
            PE::ConstantIndex { offset, from_end, .. } => {
                format!("[{}{}]", if from_end { "-" } else { "" }, offset)
            }
            PE::Subslice { from, to, from_end } => {
                format!("[{}..{}{}]", from, if from_end { "-" } else { "" }, to)
            }
            PE::Downcast(name, vi) => match name {
                Some(n) => format!("as {}", n),
                None => format!("as#{}", vi.as_usize()),
            },
            PE::OpaqueCast(_) => "opaque".to_string(),
            PE::UnwrapUnsafeBinder(_) => "unwrap_binder".to_string(),
        };
        proj.push(J::s(s));
        ty = ty.projection_ty(tcx, elem);
    }
    obj! { "l": J::u(p.local.as_usize()), "p": J::Arr(proj) }
}

fn operand<'tcx>(cx: &mut Ctx<'tcx>, body: &mir::Body<'tcx>, owner: LocalDefId, op: &Operand<'tcx>) -> J {
    match op {
        Operand::Copy(p) => obj! { "o": J::s("copy"), "place": place(cx, body, p) },
        Operand::Move(p) => obj! { "o": J::s("move"), "place": place(cx, body, p) },
        Operand::Constant(c) => {
            let ty = c.const_.ty();
            let mut o: Vec<(&'static str, J)> = vec![("o", J::s("const"))];
            match ty.kind() {
                ty::FnDef(d, args) => {
                    o.push(("fn", crate::thirdump::callee_facts(cx, owner.to_def_id(), *d, args)));
                }
                _ => {
                    let env = ty::TypingEnv::post_analysis(cx.tcx, owner.to_def_id());
                    if let Some(si) = c.const_.try_eval_scalar_int(cx.tcx, env) {
                        let bits = si.to_bits_unchecked();
                        let v = if ty.is_signed() { si.size().sign_extend(bits) as i128 } else { bits as i128 };
                        o.push(("int", J::Int(v)));
                    } else {
                        o.push(("text", J::s(ty::print::with_no_trimmed_paths!(format!("{}", c.const_)))));
                    }
                    o.push(("ty", cx.ty(ty)));
                }
            }
            J::Obj(o)
        }
        #[allow(unreachable_patterns)]
        _ => obj! { "o": J::s("other") },
    }
}

fn rvalue<'tcx>(cx: &mut Ctx<'tcx>, body: &mir::Body<'tcx>, rv: &Rvalue<'tcx>) -> Vec<(&'static str, J)> {
    let owner = body.source.def_id().expect_local();
    let mut o: Vec<(&'static str, J)> = Vec::new();
    match rv {
        Rvalue::Use(op, ..) => {
            o.push(("rv", J::s("use")));
            o.push(("ops", J::Arr(vec![operand(cx, body, owner, op)])));
        }
        Rvalue::Repeat(op, _) => {
            o.push(("rv", J::s("repeat")));
            o.push(("ops", J::Arr(vec![operand(cx, body, owner, op)])));
        }
        Rvalue::Ref(_, bk, p) => {
            o.push(("rv", J::s("ref")));
            o.push(("mut", J::Bool(matches!(bk, mir::BorrowKind::Mut { .. }))));
            o.push(("place", place(cx, body, p)));
        }
        Rvalue::RawPtr(_, p) => {
            o.push(("rv", J::s("rawptr")));
            o.push(("place", place(cx, body, p)));
        }
        Rvalue::Cast(kind, op, ty) => {
            o.push(("rv", J::s("cast")));
            o.push(("cast", J::s(format!("{:?}", kind))));
            o.push(("ops", J::Arr(vec![operand(cx, body, owner, op)])));
            o.push(("ty", cx.ty(*ty)));
        }
        Rvalue::BinaryOp(op, box (a, b)) => {
            o.push(("rv", J::s("bin")));
            o.push(("op", J::s(format!("{:?}", op))));
            o.push(("ops", J::Arr(vec![operand(cx, body, owner, a), operand(cx, body, owner, b)])));
        }
        Rvalue::UnaryOp(op, a) => {
            o.push(("rv", J::s("un")));
            o.push(("op", J::s(format!("{:?}", op))));
            o.push(("ops", J::Arr(vec![operand(cx, body, owner, a)])));
        }
        Rvalue::Discriminant(p) => {
            o.push(("rv", J::s("discr")));
            o.push(("place", place(cx, body, p)));
            let pty = p.ty(&body.local_decls, cx.tcx).ty;
            o.push(("of", cx.ty(pty)));
        }
        Rvalue::Aggregate(box kind, ops) => {
            o.push(("rv", J::s("agg")));
            match kind {
                AggregateKind::Adt(d, vi, _, _, _) => {
                    let adt = cx.tcx.adt_def(*d);
                    o.push(("adt", J::s(cx.path(*d))));
                    o.push(("variant", J::s(adt.variant(*vi).name.to_string())));
                    o.push(("vidx", J::u(vi.as_usize())));
                }
                AggregateKind::Tuple => o.push(("adt", J::s("(tuple)"))),
                AggregateKind::Array(_) => o.push(("adt", J::s("[array]"))),
                AggregateKind::Closure(d, _) => {
                    o.push(("adt", J::s("{closure}")));
                    o.push(("closure", J::s(cx.path(*d))));
                }
                _ => o.push(("adt", J::s("(other)"))),
            }
            let v: Vec<J> = ops.iter().map(|op| operand(cx, body, owner, op)).collect();
            o.push(("ops", J::Arr(v)));
        }
        Rvalue::CopyForDeref(p) => {
            o.push(("rv", J::s("use")));
            o.push(("ops", J::Arr(vec![obj! { "o": J::s("copy"), "place": place(cx, body, p) }])));
        }
        Rvalue::ThreadLocalRef(_) => o.push(("rv", J::s("tls"))),
        Rvalue::WrapUnsafeBinder(..) => o.push(("rv", J::s("wrap_binder"))),
        #[allow(unreachable_patterns)]
        _ => o.push(("rv", J::s("other"))),
    }
    o
}

fn terminator<'tcx>(
    cx: &mut Ctx<'tcx>,
    body: &mir::Body<'tcx>,
    owner: LocalDefId,
    term: &mir::Terminator<'tcx>,
) -> J {
    let sp = cx.span(term.source_info.span);
    let mut o: Vec<(&'static str, J)> = Vec::new();
    match &term.kind {
        TerminatorKind::Goto { target } => {
            o.push(("t", J::s("goto")));
            o.push(("target", J::u(target.as_usize())));
        }
        TerminatorKind::SwitchInt { discr, targets } => {
            o.push(("t", J::s("switch")));
            o.push(("discr", operand(cx, body, owner, discr)));
            let mut ts = Vec::new();
            for (v, bb) in targets.iter() {
                ts.push(J::Arr(vec![J::Int(v as i128), J::u(bb.as_usize())]));
            }
            o.push(("targets", J::Arr(ts)));
            o.push(("otherwise", J::u(targets.otherwise().as_usize())));
        }
        TerminatorKind::UnwindResume => o.push(("t", J::s("resume"))),
        TerminatorKind::UnwindTerminate(_) => o.push(("t", J::s("terminate"))),
        TerminatorKind::Return => o.push(("t", J::s("return"))),
        TerminatorKind::Unreachable => o.push(("t", J::s("unreachable"))),
        TerminatorKind::Drop { place: p, target, unwind, .. } => {
            o.push(("t", J::s("drop")));
            o.push(("place", place(cx, body, p)));
            o.push(("target", J::u(target.as_usize())));
            if let mir::UnwindAction::Cleanup(bb) = unwind {
                o.push(("unwind", J::u(bb.as_usize())));
            }
        }
        TerminatorKind::Call { func, args, destination, target, unwind, fn_span, .. } => {
            o.push(("t", J::s("call")));
            o.push(("func", operand(cx, body, owner, func)));
            let a: Vec<J> = args.iter().map(|a| operand(cx, body, owner, &a.node)).collect();
            o.push(("args", J::Arr(a)));
            o.push(("dst", place(cx, body, destination)));
            o.push(("target", J::opt(target.map(|t| J::u(t.as_usize())))));
            if let mir::UnwindAction::Cleanup(bb) = unwind {
                o.push(("unwind", J::u(bb.as_usize())));
            }
            o.push(("fn_sp", cx.span(*fn_span)));
        }
        TerminatorKind::TailCall { func, args, .. } => {
            o.push(("t", J::s("tailcall")));
            o.push(("func", operand(cx, body, owner, func)));
            let a: Vec<J> = args.iter().map(|a| operand(cx, body, owner, &a.node)).collect();
            o.push(("args", J::Arr(a)));
        }
        TerminatorKind::Assert { cond, expected, msg, target, unwind } => {
            o.push(("t", J::s("assert")));
            o.push(("cond", operand(cx, body, owner, cond)));
            o.push(("expected", J::Bool(*expected)));
            use mir::AssertKind as AK;
            let kind = match &**msg {
                AK::BoundsCheck { .. } => "bounds".to_string(),
                AK::Overflow(op, ..) => format!("overflow:{:?}", op),
                AK::OverflowNeg(_) => "overflow:Neg".to_string(),
                AK::DivisionByZero(_) => "div_zero".to_string(),
                AK::RemainderByZero(_) => "rem_zero".to_string(),
                other => format!("{:?}", std::mem::discriminant(other)),
            };
            o.push(("kind", J::s(kind)));
            o.push(("target", J::u(target.as_usize())));
            if let mir::UnwindAction::Cleanup(bb) = unwind {
                o.push(("unwind", J::u(bb.as_usize())));
            }
        }
        TerminatorKind::Yield { .. } => o.push(("t", J::s("yield"))),
        TerminatorKind::CoroutineDrop => o.push(("t", J::s("coroutine_drop"))),
        TerminatorKind::FalseEdge { real_target, .. } => {
            o.push(("t", J::s("goto")));
            o.push(("target", J::u(real_target.as_usize())));
        }
        TerminatorKind::FalseUnwind { real_target, .. } => {
            o.push(("t", J::s("goto")));
            o.push(("target", J::u(real_target.as_usize())));
        }
        TerminatorKind::InlineAsm { .. } => o.push(("t", J::s("asm"))),
    }
    o.push(("sp", sp));
    J::Obj(o)
}
