#!/bin/sh
# Build the fact generator (rustc_private driver, nightly toolchain, offline) and warm
# the dependency build used by fact extraction.
set -e
cd "$(dirname "$0")"
export CARGO_NET_OFFLINE=true
(cd factgen && cargo +nightly build --offline --release)
python3 - <<'PY'
import sys
sys.path.insert(0, ".")
from msverif import facts
print("facts:", facts.generate("default", quiet=False))
PY
